# Python decode loop: invariant preservation, signed storage N (caster intN) and unsigned
from z3 import *
import time, sys
W=128; N=int(sys.argv[1]); part=int(sys.argv[2])   # N=0 => unsigned (no caster)
I=BitVecSort(W); Mem=ArraySort(I,BitVecSort(W))
S=Const('S',Mem); i0,n,j,val,L=BitVecs('i0 n j val L',W); k=BitVec('k',W)
def sbit(mem,a): return (mem[UDiv(a,BitVecVal(8,W))] >> URem(a,BitVecVal(8,W))) & 1
def vb(v,b): return (v >> b) & 1
def wrap(x):
    if N==0: return x
    lo = x & ((1<<N)-1)
    return If(lo < (1<<(N-1)), lo, lo - (1<<N))
def Inv(v,j):
    ps=[And(j>=0,j<=n),
        ForAll([k],Implies(And(k>=0,k<j), vb(v,k)==sbit(S,i0+k))),
        ForAll([k],Implies(And(k>=j,k<(N if N else W-1)), vb(v,k)==0)) ]
    if N: ps.append(v==wrap(v))
    else: ps.append(v>=0)
    return ps
top = N if N else 64
pre=And(i0>=0,i0<(1<<32),n>=1,n<=top,L>=0,L<(1<<32),i0+n<=8*L, ForAll([k],Implies(And(k>=0,k<L),And(S[k]>=0,S[k]<=255))))
i=i0+j
def mn(a,b): return If(a<b,a,b)
c=mn(mn(n-j,8-URem(j,8)),8-URem(i,8))
b=S[UDiv(i,8)]
shift=URem(i,8)-URem(j,8)
kk=URem(j,8)
mask=If(kk==0,(BitVecVal(1,W)<<c)-1,(BitVecVal(1,W)<<((kk+1+c)-1))-(BitVecVal(1,W)<<((kk+1)-1)))
sm=If(shift>0,b>>shift,If(shift<0,b<<(0-shift),b))
d=sm&mask
lshift=UDiv(j,8)*8
x = d << lshift
if N:
    cast = If(x < (1<<(N-1)), x, x-(1<<N))       # bp.intN(x) body; precondition 0<=x<2^N is an obligation
    val2 = val | cast
else:
    val2 = val | x
s=Solver(); s.set('timeout',300000)
s.add(pre,*Inv(val,j),j<n)
goals=Inv(val2,j+c)+[And(x>=0, x<(1<<(N if N else 100)))]
s.add(Not(goals[part]))
t0=time.time(); r=s.check(); print('N',N,'part',part,r,round(time.time()-t0,1),flush=True)
