from z3 import *
import time, sys
W = 64
I = BitVecSort(W)
Mem = ArraySort(I, BitVecSort(W))
S, S0 = Consts('S S0', Mem)
i0, n, j, v, L = BitVecs('i0 n j v L', W)
k = BitVec('k', W)
def sbit(mem, a): return (mem[UDiv(a, BitVecVal(8,W))] >> URem(a, BitVecVal(8,W))) & 1
def vbit(b): return (v >> b) & 1
def InvParts(mem, j):
    return [And(j >= 0, j <= n),
        ForAll([k], Implies(And(k >= 0, k < j), sbit(mem, i0+k) == (sbit(S0, i0+k) | vbit(k)))),
        ForAll([k], Implies(And(k >= 0, k < 8*L, Or(k < i0, k >= i0 + j)), sbit(mem, k) == sbit(S0, k))),
        ForAll([k], Implies(And(k >= 0, k < L), And(mem[k] >= 0, mem[k] <= 255))),
    ]
pre = And(i0 >= 0, i0 < (1<<32), n >= 1, n <= 64, L >= 0, L < (1<<32), i0 + n <= 8*L)
i = i0 + j
def mn(a,b): return If(a < b, a, b)
mut = sys.argv[1]
c = mn(mn(n - j, 8 - URem(j,8)), 8 - URem(i,8))
if mut=='c': c = mn(n - j, 8 - URem(i,8))   # drop source-byte limit
rshift = UDiv(j,8)*8
b = (v >> rshift) & 255
shift = URem(j,8) - URem(i,8)
kk = URem(i,8)
mask = If(kk == 0, (BitVecVal(1,W) << c) - 1, (BitVecVal(1,W) << ((kk+1+c)-1)) - (BitVecVal(1,W) << ((kk+1)-1)))
if mut=='mask': mask = (BitVecVal(1,W) << (kk+c)) - 1
sm = If(shift > 0, b >> shift, If(shift < 0, b << (0 - shift), b))
d = sm & mask
idx = UDiv(i, 8)
S2 = Store(S, idx, S[idx] | d)
s = Solver(); s.set('timeout', 60000)
s.add(pre, *InvParts(S, j), j < n)
if mut=='cover':
    t0=time.time(); print('cover', s.check(), round(time.time()-t0,1)); sys.exit()
goals = InvParts(S2, j + c)
for p in (1,2):
    s.push(); s.add(Not(goals[p])); t0=time.time(); r=s.check(); print(mut,'part',p,r,round(time.time()-t0,1))
    if r==sat:
        m=s.model(); print({str(x):m[x] for x in (i0,n,j,v,L)})
    s.pop()
