# Feasibility: quantified bit-level loop invariant preservation for BpCopyBufferBits slow path (di != 0)
from z3 import *
import time
A = BitVecSort(32)   # addresses (byte index) 32-bit
Mem = ArraySort(A, BitVecSort(8))
M, M0, Ms = Consts('M M0 Ms', Mem)   # dst mem now, dst mem at entry, src mem (disjoint, unchanged)
D0, S0, N0, t = BitVecs('D0 S0 N0 t', 32)   # absolute bit addrs, total bits, done bits
def bit(mem, a):  # a: 32-bit bit address
    return Extract(0,0, LShR(mem[LShR(a,3)], Extract(7,0, a & 7)))
k = BitVec('k', 32)
def Inv(mem, t):
    return And(ULE(t, N0),
        ForAll([k], Implies(ULT(k, t), bit(mem, D0+k) == bit(Ms, S0+k))),
        # not-yet-copied bits of region (up to byte end) are zero
        ForAll([k], Implies(And(UGE(k, t), ULT(D0+k, ((D0+N0+7)>>3)<<3)), bit(mem, D0+k) == 0)),
        # frame: bytes outside region unchanged
        ForAll([k], Implies(Or(ULT(k, LShR(D0,3)), UGE(k, LShR(D0+N0+7,3))), mem[k] == M0[k])),
        # bits below D0 in first byte unchanged
        ForAll([k], Implies(And(UGE(k, (LShR(D0,3))<<3), ULT(k, D0)), bit(mem,k) == bit(M0,k))),
    )
bound = And(ULT(D0, 1<<24), ULT(S0, 1<<24), ULT(N0, 1<<24))
# one iteration, slow path: di = (D0+t)&7 != 0
n = N0 - t
dp = LShR(D0+t, 3); sp = LShR(S0+t, 3)
di = (D0+t) & 7; si = (S0+t) & 7
def mn(a,b): return If(ULT(a,b),a,b)
c = mn(mn(8-di, 8-si), n)
ch = ZeroExt(24, Ms[sp])
val = (LShR(ch, si) << di) & ~((BitVecVal(0xff,32) << di) << c)
newb = M[dp] | Extract(7,0,val)
M2 = Store(M, dp, newb)
s = Solver()
s.set('timeout', 120000)
s.add(bound, Inv(M, t), n != 0, di != 0)
s.add(Not(Inv(M2, t + c)))
t0=time.time(); r = s.check(); print('slow path preservation:', r, time.time()-t0)
