# Feasibility: end-to-end symbolic encode/decode of a GENERATED module + real bp.py with proxies
import sys, types, z3
sys.path[:0]=['/repo/compiler','/tmp/fz/deps']
exec(open('/tmp/fz/exp5.py').read().split('# --- contract check')[0])   # reuse proxies + bp module loading
import bitproto._ast as A, bitproto.parser as P
A._ENABLE_CACHE_ON_AST_FROZEN=False
from bitproto.renderer.impls.py.renderer import RendererPy
schema = "proto a\nmessage Inner' { int5 q = 1 }\nmessage M { uint3 x = 1; int24[2] y = 3; Inner inner = 2; bool b = 7; uint64 big = 9 }\n"
p = P.parse_string(schema)
src = RendererPy(p, outdir='/tmp/fz').render_string()
class CBytes(list):   # concrete-length byte buffer with symbolic contents
    def __init__(s,n): super().__init__([0]*n)
    def __setitem__(s,i,v):
        if isinstance(v,SymInt): CTX.oblige('byte value 0..255', z3.And(v.t>=0, v.t<=255))
        list.__setitem__(s,i,v)
bl = types.ModuleType('bitprotolib'); bl.bp = bp; sys.modules['bitprotolib']=bl; sys.modules['bitprotolib.bp']=bp
gen = types.ModuleType('a_bp'); gen.__dict__['bytearray']=CBytes
exec(compile(src,'a_bp.py','exec'), gen.__dict__)
m = gen.M()
x,y0,y1,q,b,big = [z3.BitVec(n,W) for n in 'x y0 y1 q b big'.split()]
m.x=SymInt(x); m.y=[SymInt(y0),SymInt(y1)]; m.inner.q=SymInt(q); m.big=SymInt(big)
CTX.pc=[]; CTX.decisions=[]; CTX.pos=0
out = m.encode()
print('BYTES_LENGTH', gen.M.BYTES_LENGTH, 'len', len(out))
# spec: x:3 | inner: 16-bit size(=21) + q:5 | y: 2x24 | b:1 | big:64
bits=[]
def put(v,n): bits.extend([z3.Extract(k,k,v) for k in range(n)])
put(x,3); put(z3.BitVecVal(21,W),16); put(q,5); put(y0,24); put(y1,24); put(z3.BitVecVal(0,W),1); put(big,64)
while len(bits)%8: bits.append(z3.BitVecVal(0,1))
s=z3.Solver()
ok=True
for k in range(len(out)):
    exp=z3.Concat(*reversed(bits[8*k:8*k+8]))
    got=z3.Extract(7,0,lift(out[k]))
    r=s.check(got!=exp); ok &= (r==z3.unsat)
print('encode == spec for all values:', ok, 'obligations', len(CTX.obl), all(o for _,o in CTX.obl))
