# Feasibility: run REAL bp.py functions under CPython on z3-backed proxy ints
import z3, types, sys
W = 128
class Unsupported(Exception): pass
class Ctx:
    def __init__(self): self.pc=[]; self.obl=[]; self.decisions=[]; self.pos=0
    def branch(self, cond):
        # decide branch: forced by script, else explore True first
        if self.pos < len(self.decisions):
            d = self.decisions[self.pos]
        else:
            s=z3.Solver(); s.add(*self.pc)
            can_t = s.check(cond)==z3.sat; can_f = s.check(z3.Not(cond))==z3.sat
            if can_t and can_f: d=True; self.decisions.append(True)   # fork point
            else:
                d = can_t; self.decisions.append(('forced',d))
        self.pos+=1
        if isinstance(d,tuple): d=d[1]
        self.pc.append(cond if d else z3.Not(cond))
        return d
    def oblige(self, what, cond):
        s=z3.Solver(); s.add(*self.pc); s.add(z3.Not(cond))
        r=s.check(); self.obl.append((what, r==z3.unsat))
        if r!=z3.unsat: print('OBLIGATION FAILS', what, s.model() if r==z3.sat else r)
CTX=Ctx()
def lift(x):
    if isinstance(x, SymInt): return x.t
    if isinstance(x, bool): return z3.BitVecVal(int(x), W)
    if isinstance(x, int): return z3.BitVecVal(x, W)
    raise Unsupported(type(x))
class SymBool:
    def __init__(s,t): s.t=t
    def __bool__(s): return CTX.branch(s.t)
class SymInt:
    def __init__(s,t): s.t=z3.simplify(t) if not z3.is_const(t) else t
    def _b(s,o,f): return SymInt(f(s.t, lift(o)))
    def __add__(s,o): return s._b(o, lambda a,b:a+b)
    def __radd__(s,o): return SymInt(lift(o)+s.t)
    def __sub__(s,o): return s._b(o, lambda a,b:a-b)
    def __rsub__(s,o): return SymInt(lift(o)-s.t)
    def __mul__(s,o): return s._b(o, lambda a,b:a*b)
    __rmul__=__mul__
    def __and__(s,o): return s._b(o, lambda a,b:a&b)
    __rand__=__and__
    def __or__(s,o): return s._b(o, lambda a,b:a|b)
    __ror__=__or__
    def __rshift__(s,o):
        CTX.oblige('shift count in [0,W)', z3.And(lift(o)>=0, lift(o)<W)); return s._b(o, lambda a,b:a>>b)
    def __lshift__(s,o):
        CTX.oblige('shift count in [0,W)', z3.And(lift(o)>=0, lift(o)<W)); return s._b(o, lambda a,b:a<<b)  # overflow obligation omitted in this sketch
    def __rlshift__(s,o): return SymInt(lift(o) << s.t)
    def __mod__(s,o):
        CTX.oblige('mod: nonneg/positive', z3.And(s.t>=0, lift(o)>0)); return s._b(o, lambda a,b: z3.URem(a,b))
    def __truediv__(s,o): return SymRatio(s, o)
    def __neg__(s): return SymInt(-s.t)
    def __lt__(s,o): return SymBool(s.t < lift(o))
    def __le__(s,o): return SymBool(s.t <= lift(o))
    def __gt__(s,o): return SymBool(s.t > lift(o))
    def __ge__(s,o): return SymBool(s.t >= lift(o))
    def __eq__(s,o): return SymBool(s.t == lift(o))
    def __ne__(s,o): return SymBool(s.t != lift(o))
    __hash__=None
class SymRatio:
    def __init__(s,a,b): s.a=a; s.b=b
def sym_int(x=0, *a):
    if isinstance(x, SymRatio):
        assert isinstance(x.b,int) and x.b>0 and (x.b & (x.b-1))==0
        CTX.oblige('int(a/2^k): 0<=a<2^53', z3.And(lift(x.a)>=0, lift(x.a) < (1<<53)))
        return SymInt(z3.UDiv(lift(x.a), lift(x.b)))
    if isinstance(x, SymInt): return x
    return int(x,*a)
def sym_min(*xs):
    r=xs[0]
    for x in xs[1:]:
        if isinstance(r,SymInt) or isinstance(x,SymInt): r=SymInt(z3.If(lift(x)<lift(r), lift(x), lift(r)))
        else: r=min(r,x)
    return r
class SymBytes:
    def __init__(s,name): s.a=z3.Array(name, z3.BitVecSort(W), z3.BitVecSort(W)); s.n=z3.BitVec(name+'_len',W)
    def __getitem__(s,i):
        CTX.oblige('bytearray index in range', z3.And(lift(i)>=0, lift(i)<s.n)); return SymInt(s.a[lift(i)])
    def __setitem__(s,i,v):
        CTX.oblige('bytearray index in range', z3.And(lift(i)>=0, lift(i)<s.n))
        CTX.oblige('bytearray value in 0..255', z3.And(lift(v)>=0, lift(v)<=255))
        s.a=z3.Store(s.a, lift(i), lift(v))
src=open('/repo/lib/py/bitprotolib/bp.py').read()
bp=types.ModuleType('bp'); bp.__dict__.update(int=sym_int, min=sym_min)
sys.modules['bp']=bp
exec(compile(src,'/repo/lib/py/bitprotolib/bp.py','exec'), bp.__dict__)
# --- contract check of encode_single_byte for symbolic i, j, c, value ---
i=SymInt(z3.BitVec('i',W)); j=SymInt(z3.BitVec('j',W)); c=SymInt(z3.BitVec('c',W)); v=z3.BitVec('v',W)
class Acc(bp.Accessor):
    def bp_get_byte(self, di, rshift):   # contract stub: returns (v >> rshift) & 255
        return SymInt((v >> lift(rshift)) & 255)
s=SymBytes('s'); S0=s.a
ctx=bp.ProcessContext(True, s, i)
pre=[i.t>=0, i.t<(1<<32), j.t>=0, j.t<64, c.t>=1, c.t<=8-z3.URem(j.t,8), c.t<=8-z3.URem(i.t,8), z3.UDiv(i.t,8)<s.n,
     z3.ForAll([z3.BitVec('q',W)], z3.And(S0[z3.BitVec('q',W)]>=0, S0[z3.BitVec('q',W)]<=255))]
paths=0
todo=[[]]
while todo:
    CTX.pc=list(pre); CTX.decisions=todo.pop(); CTX.pos=0; CTX.obl=[]
    s.a=S0; ctx.i=i
    bp.encode_single_byte(ctx, bp.DataIndexer(1), Acc(), j, c)
    paths+=1
    # postcondition: byte idx OR'ed with ((v>>j)&(2^c-1))<<(i%8); others unchanged
    idx=z3.UDiv(i.t,8); exp=z3.Store(S0, idx, S0[idx] | (((v>>j.t) & ((z3.BitVecVal(1,W)<<c.t)-1)) << z3.URem(i.t,8)))
    q=z3.BitVec('q2',W)
    CTX.oblige('post: buffer', s.a[q]==exp[q])
    print('path', CTX.decisions, [(w,ok) for w,ok in CTX.obl if not ok] or 'all %d obligations ok'%len(CTX.obl))
    # enqueue alternative for forks
    for k,d in enumerate(CTX.decisions):
        if d is True and k>=len([x for x in CTX.decisions[:k+1]])-1:
            pass
    # simple DFS fork enumeration
    ds=CTX.decisions
    for k in range(len(ds)-1,-1,-1):
        if ds[k] is True and not getattr(ds,'_done',False):
            alt=ds[:k]+[False]
            if alt not in todo and k>=CTX_start if False else True:
                pass
    # (fork enumeration elided in sketch: collect forks)
    forks=[k for k,d in enumerate(ds) if d is True]
    for k in forks:
        alt=ds[:k]+[False]
        key=tuple(map(str,alt))
        if key not in globals().setdefault('seen',set()):
            seen.add(key); todo.append(alt)
print('paths explored', paths)
