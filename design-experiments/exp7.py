import sys, types
sys.path[:0]=['/repo/compiler','/tmp/fz/deps','/repo/lib/py']
import bitproto.parser as P
from bitproto.renderer.impls.py.renderer import RendererPy
def gen(schema, name):
    p=P.parse_string(schema); src=RendererPy(p,outdir='/tmp/fz').render_string()
    m=types.ModuleType(name); exec(compile(src,name,'exec'), m.__dict__); return m
# D5: extensible array, same schema both ends, cap^2 > 16+cap*eb
g=gen("proto a\nmessage M { bool[8]' a = 1; uint8 t = 2 }\n",'d5')
m=g.M(); m.a=[True]*8; m.t=0xAB; s=m.encode(); n=g.M(); n.decode(s); print('D5 same-schema roundtrip t:', hex(m.t), '->', hex(n.t), 'a', n.a)
# D5 forward compat: S1 byte[4]' ; S2 byte[6]'
g1=gen("proto a\nmessage M { byte[4]' a = 1; uint8 t = 2 }\n",'s1'); g2=gen("proto a\nmessage M { byte[6]' a = 1; uint8 t = 2 }\n",'s2')
m=g2.M(); m.a=bytearray([1,2,3,4,5,6]); m.t=0xCD; s=m.encode(); n=g1.M(); n.decode(s); print('D5 fwd t:', hex(n.t), list(n.a))
# D4: enum sparse / straddling
g=gen("proto a\nenum E : uint3 { Z = 0; F = 5 }\nmessage M { uint6 pad = 1; E e = 2 }\n",'d4')
m=g.M(); m.e=g.E.F; s=m.encode()
try:
    n=g.M(); n.decode(s); print('D4 ok', n.e)
except Exception as ex: print('D4 raises', type(ex).__name__, ex)
g=gen("proto a\nenum E : uint16 { Z = 0; F = 257 }\nmessage M { E e = 2 }\n",'d4b')
m=g.M(); m.e=g.E.F; s=m.encode()
try:
    n=g.M(); n.decode(s); print('D4b ok', n.e)
except Exception as ex: print('D4b raises', type(ex).__name__, ex)
# D14: enum first member non-zero
g=gen("proto a\nenum E : uint3 { A = 1; B = 2 }\nmessage M { E e = 1 }\n",'d14')
m=g.M(); m.e=g.E.B; s=m.encode(); n=g.M()
try:
    n.decode(s); print('D14 decoded', int(n._enum_field_proxy__e), 'expected 2')
except Exception as ex: print('D14 raises', type(ex).__name__, ex)
# D6
g=gen("proto a\nmessage M { byte[2] a = 1 }\n",'d6')
try: print(g.M().to_json())
except Exception as ex: print('D6 raises', type(ex).__name__, ex)
# D1
try: P.parse_string("proto a\nconst A = 1 / 0\n")
except Exception as ex: print('D1', type(ex).__name__)
# D3
try:
    p=P.parse_string("proto a\nenum E : uint3 {}\nmessage M { E e = 1 }\n"); RendererPy(p,outdir='/tmp/fz').render_string()
except Exception as ex: print('D3', type(ex).__name__)
# D2
p=P.parse_string('proto a\nconst S = "a\\"b"\n'); print('D2', [l for l in RendererPy(p,outdir='/tmp/fz').render_string().splitlines() if l.startswith('S')])
