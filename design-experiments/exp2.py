from z3 import *
import time, sys
A = BitVecSort(32)
Mem = ArraySort(A, BitVecSort(8))
M, M0, Ms = Consts('M M0 Ms', Mem)
D0, S0, N0, t = BitVecs('D0 S0 N0 t', 32)
def bit(mem, a):
    return Extract(0,0, LShR(mem[LShR(a,3)], Extract(7,0, a & 7)))
k = BitVec('k', 32)
def InvParts(mem, t):
    return [ULE(t, N0),
        ForAll([k], Implies(ULT(k, t), bit(mem, D0+k) == bit(Ms, S0+k))),
        ForAll([k], Implies(And(UGE(k, t), ULT(D0+k, ((D0+N0+7)>>3)<<3)), bit(mem, D0+k) == 0)),
        ForAll([k], Implies(Or(ULT(k, LShR(D0,3)), UGE(k, LShR(D0+N0+7,3))), mem[k] == M0[k])),
        ForAll([k], Implies(And(UGE(k, (LShR(D0,3))<<3), ULT(k, D0)), bit(mem,k) == bit(M0,k))),
    ]
bound = And(ULT(D0, 1<<24), ULT(S0, 1<<24), ULT(N0, 1<<24))
n = N0 - t
dp = LShR(D0+t, 3); sp = LShR(S0+t, 3)
di = (D0+t) & 7; si = (S0+t) & 7
def mn(a,b): return If(ULT(a,b),a,b)
def path_slow():
    c = mn(mn(8-di, 8-si), n)
    ch = ZeroExt(24, Ms[sp])
    val = (LShR(ch, si) << di) & ~((BitVecVal(0xff,32) << di) << c)
    return [n != 0, di != 0], Store(M, dp, M[dp] | Extract(7,0,val)), c
def path_32():
    bits = n + si
    w = Concat(Ms[sp+3], Ms[sp+2], Ms[sp+1], Ms[sp])
    v = LShR(w, si)
    M2 = Store(Store(Store(Store(M, dp, Extract(7,0,v)), dp+1, Extract(15,8,v)), dp+2, Extract(23,16,v)), dp+3, Extract(31,24,v))
    return [n != 0, di == 0, bits >= 32], M2, 32 - si
def path_16():
    bits = n + si
    w = ZeroExt(16, Concat(Ms[sp+1], Ms[sp]))
    v = LShR(w, si)
    M2 = Store(Store(M, dp, Extract(7,0,v)), dp+1, Extract(15,8,v))
    return [n != 0, di == 0, bits < 32, bits >= 16], M2, 16 - si
def path_8():
    bits = n + si
    v = LShR(ZeroExt(24, Ms[sp]), si) & 0xff
    return [n != 0, di == 0, bits < 16, bits >= 8], Store(M, dp, Extract(7,0,v)), 8 - si
def path_part():
    bits = n + si
    c = mn(8 - si, n)
    v = LShR(ZeroExt(24, Ms[sp]), si) & ~(BitVecVal(0xff,32) << c)
    return [n != 0, di == 0, bits < 8], Store(M, dp, M[dp] | Extract(7,0,v)), c
paths = dict(slow=path_slow, p32=path_32, p16=path_16, p8=path_8, part=path_part)
which = sys.argv[1]; part = int(sys.argv[2])
conds, M2, c = paths[which]()
s = Solver(); s.set('timeout', 300000)
s.add(bound, *InvParts(M, t), *conds)
s.add(Not(InvParts(M2, t + c)[part]))
t0=time.time(); r = s.check(); print(which, part, r, round(time.time()-t0,1), flush=True)
