import sys
sys.path[:0]=['/repo/compiler','/tmp/fz/deps']
import bitproto.parser as P
from bitproto.errors import ParserError
def t(name, s):
    try: P.parse_string(s); r='ACCEPT'
    except ParserError as e: r='reject '+type(e).__name__
    except Exception as e: r='INTERNAL '+type(e).__name__+': '+str(e)[:60]
    print(f'{name:38s} {r}')
t('uint64','proto a\nmessage M { uint64 x = 1 }\n'); t('uint65','proto a\nmessage M { uint65 x = 1 }\n'); t('uint0','proto a\nmessage M { uint0 x = 1 }\n')
t('int64','proto a\nmessage M { int64 x = 1 }\n'); t('int65','proto a\nmessage M { int65 x = 1 }\n'); t('int0','proto a\nmessage M { int0 x = 1 }\n')
t('cap 65535 alias','proto a\ntype A = bool[65535]\n'); t('cap 65536 alias','proto a\ntype A = bool[65536]\n'); t('cap 0','proto a\ntype A = bool[0]\n')
t('fieldno 255','proto a\nmessage M { bool x = 255 }\n'); t('fieldno 256','proto a\nmessage M { bool x = 256 }\n'); t('fieldno 0','proto a\nmessage M { bool x = 0 }\n')
t('msg 65535 bits','proto a\nmessage M { bool[65535] x = 1 }\n'); t('msg 65536 bits','proto a\nmessage M { bool[65535] x = 1; bool y = 2 }\n')
t("ext msg 65519+16","proto a\nmessage M' { bool[65519] x = 1 }\n"); t("ext msg 65520+16","proto a\nmessage M' { bool[65520] x = 1 }\n")
t("ext arr 65519+16","proto a\nmessage M { bool[65519]' x = 1 }\n"); t("ext arr 65520+16","proto a\nmessage M { bool[65520]' x = 1 }\n")
t('enum 7 in uint3','proto a\nenum E : uint3 { A = 7 }\n'); t('enum 8 in uint3','proto a\nenum E : uint3 { A = 8 }\n')
t('max_bytes ok','proto a\nmessage M { option max_bytes = 1; uint8 x = 1 }\n'); t('max_bytes over','proto a\nmessage M { option max_bytes = 1; uint9 x = 1 }\n')
t('enum uint65','proto a\nenum E : uint65 { A = 0 }\n')
t('2d array','proto a\nmessage M { bool[2][3] x = 1 }\n')
t('alias of enum','proto a\nenum E : uint3 { A = 0 }\ntype T = E\n')
t('huge int literal cap','proto a\ntype A = bool[99999999999999999999999]\n')
t('const neg cap','proto a\nconst N = 1 - 2\ntype A = bool[N]\n')
t('string const as cap','proto a\nconst N = "x"\ntype A = bool[N]\n')
t('bool const in calc','proto a\nconst B = true\nconst N = B + 1\n')
t('option wrong type','proto a\noption c.name_prefix = 1\n')
t('option unknown','proto a\noption foo = 1\n')
t('struct align 9','proto a\noption c.struct_packing_alignment = 9\n')
t('max_bytes from neg const','proto a\nconst N = 0 - 1\nmessage M { option max_bytes = N }\n')
t('option bool const','proto a\nconst B = true\noption c.struct_packing_alignment = B\n')
