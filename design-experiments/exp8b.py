# same with explicit lemma hint: monotonic product
from z3 import *
import time
sb=Function('sb',IntSort(),IntSort()); sb2=Function('sb2',IntSort(),IntSort()); eb=Function('eb',IntSort(),IntSort(),IntSort())
base,k,w,cap=Ints('base k w cap'); kk,b,x=Ints('kk b x')
ci=base+k*w
Inv=lambda f,K: ForAll([kk,b], Implies(And(0<=kk,kk<K,0<=b,b<w), f(base+kk*w+b)==eb(kk,b)))
s=Solver(); s.set('timeout',120000)
KK,B=Ints('KK B')  # skolem for goal
s.add(w>=1,k>=0,k<cap,base>=0, Inv(sb,k))
s.add(ForAll([b],Implies(And(0<=b,b<w), sb2(ci+b)==eb(k,b))))
s.add(ForAll([x],Implies(x<ci, sb2(x)==sb(x))))
s.add(0<=KK,KK<k+1,0<=B,B<w, sb2(base+KK*w+B)!=eb(KK,B))
# lemma instance: KK<k => KK*w + w <= k*w
s.add(Implies(KK<k, (k-KK-1)*w>=0))
t=time.time(); print(s.check(), round(time.time()-t,1))
