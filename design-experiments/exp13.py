# Throwaway: pysym mechanics on the REAL bp.Array.process (decode): AST loop cut + contract stubs + path forking, z3 Int
import ast, types, z3, sys, copy
SRC='/repo/lib/py/bitprotolib/bp.py'
class StopPath(Exception): pass
class VC:
    def __init__(s): s.pc=[]; s.dec=[]; s.pos=0; s.obl=[]; s.fresh_n=0
    def reset(s,dec,pre): s.pc=list(pre); s.dec=dec; s.pos=0
    def branch(s,c):
        if s.pos<len(s.dec): d=s.dec[s.pos][1]
        else:
            sv=z3.Solver(); sv.add(*s.pc); t=sv.check(c)==z3.sat; f=sv.check(z3.Not(c))==z3.sat
            d=t; s.dec.append(('fork' if (t and f) else 'forced', d))
        s.pos+=1; s.pc.append(c if d else z3.Not(c)); return d
    def oblige(s,name,g):
        sv=z3.Solver(); sv.set('timeout',20000); sv.add(*s.pc); sv.add(z3.Not(g)); r=sv.check()
        s.obl.append((name,str(r), sv.model() if r==z3.sat else None))
    def assume(s,g): s.pc.append(g)
    def fresh(s,n): s.fresh_n+=1; return SymInt(z3.Int(f'{n}!{s.fresh_n}'))
V=VC()
def L(x): return x.t if isinstance(x,SymInt) else z3.IntVal(int(x))
class SymBool:
    def __init__(s,t): s.t=t
    def __bool__(s): return V.branch(s.t)
class SymInt:
    def __init__(s,t): s.t=t
    def __add__(s,o): return SymInt(s.t+L(o))
    __radd__=__add__
    def __sub__(s,o): return SymInt(s.t-L(o))
    def __mul__(s,o): return SymInt(s.t*L(o))
    __rmul__=__mul__
    def __lt__(s,o): return SymBool(s.t<L(o))
    def __ge__(s,o): return SymBool(s.t>=L(o))
    def __le__(s,o): return SymBool(s.t<=L(o))
    def __gt__(s,o): return SymBool(s.t>L(o))
    def __eq__(s,o): return SymBool(s.t==L(o))
    __hash__=None
# ---- AST rewrite: cut `for k in range(E): BODY` inside Array.process
tree=ast.parse(open(SRC).read())
class Cut(ast.NodeTransformer):
    def __init__(s): s.cls=None; s.fn=None
    def visit_ClassDef(s,n): s.cls=n.name; s.generic_visit(n); s.cls=None; return n
    def visit_FunctionDef(s,n): old=s.fn; s.fn=n.name; s.generic_visit(n); s.fn=old; return n
    def visit_For(s,n):
        if (s.cls,s.fn)!=('Array','process'): return n
        k=n.target.id; bound=n.iter.args[0]
        new=ast.parse(f"""
{k} = 0
vcbound_ = BOUND
vc_.inv_entry(locals())
{k} = vc_.havoc(locals())
vc_.inv_assume(locals())
if {k} < vcbound_:
    pass
    {k} = {k} + 1
    vc_.inv_preserve(locals())
    vc_.stop()
""").body
        new[1].value=bound
        new[5].body=n.body+new[5].body[1:]
        return new
tree=ast.fix_missing_locations(Cut().visit(tree))
bp=types.ModuleType('bp'); exec(compile(tree,SRC,'exec'),bp.__dict__)
# ---- symbolic world
i0,cap,w,ahead=z3.Ints('i0 cap w ahead'); ext=z3.Bool('ext')
class StubElem(bp.Processor):                      # abstract Processor.process contract (decode): cursor += w
    def process(self,ctx,di,acc): ctx.i=ctx.i+SymInt(w)
class Loop:                                       # invariant of loop 1 of Array.process (decode): ctx.i == base + k*w
    def bind(s,ctx,base): s.ctx=ctx; s.base=base
    def inv(s,loc): k=loc['k']; return z3.And(L(k)>=0, L(k)<=cap, L(s.ctx.i)==s.base()+L(k)*w)
    def inv_entry(s,loc): V.oblige('inv-entry',s.inv(loc))
    def havoc(s,loc): s.ctx.i=V.fresh('ctx.i'); return V.fresh('k')
    def inv_assume(s,loc): V.assume(s.inv(loc))
    def inv_preserve(s,loc): V.oblige('inv-preserve',s.inv(loc))
    def stop(s): raise StopPath()
lp=Loop(); bp.__dict__['vc_']=lp
results=[]; todo=[[]]; seen=set()
while todo:
    dec=todo.pop(); V.reset(dec,[i0>=0,cap>=1,cap<=65535,w>=1,w<=65535,ahead>=0,ahead<=65535]); V.obl=[]
    arr=bp.Array(SymBool(ext),SymInt(cap),StubElem())
    aheadpos={}
    def dec_ahead(ctx):                            # contract stub of decode_extensible_ahead
        ctx.i=ctx.i+16; return SymInt(ahead)
    arr.decode_extensible_ahead=dec_ahead
    ctx=bp.ProcessContext(False,None,SymInt(i0)); di=bp.DataIndexer(1)
    lp.bind(ctx, lambda: i0+z3.If(ext,16,0))
    try:
        arr.process(ctx,di,None); ended='exit'
        # property-level postcondition (C05): extensible and ahead>=cap  =>  cursor = i0+16+ahead*w ; non-ext => i0+cap*w
        V.oblige('post: non-extensible cursor', z3.Implies(z3.Not(ext), L(ctx.i)==i0+cap*w))
        V.oblige('post: extensible cursor (C05)', z3.Implies(z3.And(ext,ahead>=cap), L(ctx.i)==i0+16+ahead*w))
        V.oblige('post: index stack restored', z3.BoolVal(len(di.aistack)==0))
    except StopPath: ended='cut'
    results.append((V.dec[:],ended,V.obl[:]))
    for n,(kind,d) in enumerate(V.dec):
        if kind=='fork' and d is True:
            alt=V.dec[:n]+[('fork',False)]; key=str(alt)
            if key not in seen: seen.add(key); todo.append(alt)
for dec,ended,obl in results:
    print([d for _,d in dec], ended)
    for name,r,m in obl:
        print('    ',name,'->','discharged' if r=='unsat' else 'REFUTED '+str(m) if r=='sat' else r)
