# Throwaway: straight-line symbolic evaluation of generated -O C (clang JSON AST), LE and BE memory models
import json, sys, z3, re, time
def load(path, fname):
    d=json.load(open(path))
    for n in d['inner']:
        if n.get('kind')=='FunctionDecl' and n.get('name')==fname and any(c.get('kind')=='CompoundStmt' for c in n.get('inner',[])): return n
TYPES={'unsigned char':(8,False),'uint8_t':(8,False),'uint16_t':(16,False),'uint32_t':(32,False),'uint64_t':(64,False),
       'int8_t':(8,True),'int16_t':(16,True),'int32_t':(32,True),'int64_t':(64,True),'int':(32,True),'unsigned int':(32,False),
       'long':(64,True),'unsigned long':(64,False),'bool':(8,False),'_Bool':(8,False),'unsigned':(32,False),'long long':(64,True)}
TYPEDEFS={'Color':'uint8_t','Ts':'int64_t'}
def ty(n):
    t=n['type']; q=t.get('desugaredQualType',t['qualType'])
    q=TYPEDEFS.get(q,q)
    return TYPES[q]
class Ev:
    def __init__(s, big): s.big=big; s.cells={}; s.sbuf={}; s.obl=[]
    def cell(s, path, w):   # access-path cell: value bit-vector of width w
        if path not in s.cells: s.cells[path]=z3.BitVec(path,w)
        return s.cells[path]
    def lpath(s,n):         # lvalue -> ('cell',path,w) | ('byte',path,w,k) | ('s',k)
        k=n['kind']
        if k=='ParenExpr': return s.lpath(n['inner'][0])
        if k=='UnaryOperator' and n['opcode']=='*':
            return ('cell','m',0)
        if k=='MemberExpr':
            b=s.lpath(n['inner'][0]); w=ty(n)[0] if n['type']['qualType'].split('[')[0].strip() in TYPES or n['type'].get('desugaredQualType','') in TYPES or n['type']['qualType'] in TYPEDEFS else 0
            return ('cell', b[1]+'.'+n['name'], w)
        if k=='ArraySubscriptExpr':
            base,idx=n['inner']
            iv=s.rv(idx); iv=z3.simplify(iv).as_long()
            bb=base
            while bb['kind'] in ('ImplicitCastExpr','ParenExpr'): bb=bb['inner'][0]
            if bb['kind']=='DeclRefExpr' and bb['referencedDecl']['name']=='s': return ('s',iv)
            if bb['kind']=='CStyleCastExpr':      # (unsigned char*)&(lvalue)
                inner=bb['inner'][0]
                while inner['kind'] in ('ImplicitCastExpr','ParenExpr'): inner=inner['inner'][0]
                assert inner['kind']=='UnaryOperator' and inner['opcode']=='&'
                lv=s.lpath(inner['inner'][0]); w=ty(inner['inner'][0])[0]
                return ('byte',lv[1],w,iv)
            lv=s.lpath(bb)
            try: w=ty(n)[0]
            except KeyError: w=0
            return ('cell',lv[1]+'[%d]'%iv,w)
        raise Exception('lpath '+k)
    def load(s,lv):
        if lv[0]=='s': return s.sbuf.setdefault(lv[1], z3.BitVec('s%d'%lv[1],8))
        if lv[0]=='cell': return s.cell(lv[1],lv[2])
        _,p,w,k=lv; v=s.cell(p,w); nb=w//8; pos=(nb-1-k) if s.big else k
        return z3.Extract(8*pos+7,8*pos,v)
    def store(s,lv,val):
        if lv[0]=='s': s.sbuf[lv[1]]=val; return
        if lv[0]=='cell': s.cells[lv[1]]=val; return
        _,p,w,k=lv; v=s.cell(p,w); nb=w//8; pos=(nb-1-k) if s.big else k
        parts=[]
        if 8*pos+8<w: parts.append(z3.Extract(w-1,8*pos+8,v))
        parts.append(val)
        if pos>0: parts.append(z3.Extract(8*pos-1,0,v))
        s.cells[p]=z3.Concat(*parts) if len(parts)>1 else parts[0]
    def conv(s,v,fw,fs,tw):
        if tw==fw: return v
        if tw<fw: return z3.Extract(tw-1,0,v)
        return z3.SignExt(tw-fw,v) if fs else z3.ZeroExt(tw-fw,v)
    def rv(s,n):
        k=n['kind']
        if k=='ParenExpr': return s.rv(n['inner'][0])
        if k=='IntegerLiteral': return z3.BitVecVal(int(n['value']),ty(n)[0])
        if k=='ImplicitCastExpr' or k=='CStyleCastExpr':
            ck=n['castKind']; sub=n['inner'][0]
            if ck=='LValueToRValue': return s.load(s.lpath(sub))
            if ck in ('IntegralCast','NoOp'):
                fw,fs=ty(sub); tw,_=ty(n); return s.conv(s.rv(sub),fw,fs,tw)
            if ck=='IntegralToBoolean':
                fw,_=ty(sub); return z3.If(s.rv(sub)!=0, z3.BitVecVal(1,8), z3.BitVecVal(0,8))
            raise Exception('cast '+ck)
        if k=='UnaryOperator':
            if n['opcode']=='-': return -s.rv(n['inner'][0])
            if n['opcode']=='~': return ~s.rv(n['inner'][0])
        if k=='BinaryOperator':
            a,b=n['inner']; op=n['opcode']; w,sg=ty(n)
            x=s.rv(a); y=s.rv(b)
            if op in('<<','>>'):
                yw=y.size(); y=s.conv(y,yw,False,w)
                s.obl.append(z3.ULT(y,w))
                if op=='<<': return x<<y
                return (x>>y) if ty(a)[1] else z3.LShR(x,y)
            if op=='&': return x&y
            if op=='|': return x|y
            if op=='-': return x-y
            if op=='+': return x+y
        raise Exception('rv '+k+' '+n.get('opcode',''))
    def stmt(s,n,pc=True):
        k=n['kind']
        if k=='CompoundStmt':
            for c in n['inner']: s.stmt(c)
        elif k=='BinaryOperator' and n['opcode']=='=':
            s.store(s.lpath(n['inner'][0]), s.rv(n['inner'][1]))
        elif k=='CompoundAssignOperator':
            lv=s.lpath(n['inner'][0]); lw,ls=ty(n['inner'][0]); cw,cs=TYPES[n['computeResultType']['qualType']]
            a=s.conv(s.load(lv),lw,ls,cw); b=s.rv(n['inner'][1]); b=s.conv(b,b.size(),ty(n['inner'][1])[1],cw)
            r={'|=':a|b,'&=':a&b}[n['opcode']]
            s.store(lv, s.conv(r,cw,cs,lw))
        elif k=='IfStmt':
            c=s.rv(n['inner'][0]); snap=dict(s.cells); s.stmt(n['inner'][1])
            for p,v in list(s.cells.items()):
                if p in snap and not z3.eq(snap[p],v): s.cells[p]=z3.If(c!=0,v,snap[p])
        elif k=='ReturnStmt': pass
        elif k=='CallExpr':   # memset(m,0,sizeof *m)
            s.zero=True
        else: raise Exception('stmt '+k)
def bits(v,n): return [z3.Extract(i,i,v) for i in range(n)]
def spec_inner(a,b):
    bs=bits(a,24)+bits(b,1)
    while len(bs)%8: bs.append(z3.BitVecVal(0,1))
    return [z3.Concat(*reversed(bs[8*i:8*i+8])) for i in range(len(bs)//8)]
for big,path in ((False,'/tmp/fz/gen/o/ast.json'),(True,'/tmp/fz/gen/o/ast_be.json')):
    f=load(path,'EncodeInner'); ev=Ev(big)
    for i in range(4): ev.sbuf[i]=z3.BitVecVal(0,8)
    ev.stmt([c for c in f['inner'] if c['kind']=='CompoundStmt'][0])
    a=ev.cell('m.a',32); b=ev.cell('m.b',8)
    exp=spec_inner(a,b); s=z3.Solver()
    ok=all(s.check(ev.sbuf[i]!=exp[i])==z3.unsat for i in range(4))
    print('EncodeInner', 'BE' if big else 'LE', 'bytes==spec for ALL storage contents:', ok, 'shift-obligations', len(ev.obl))
    # in-range only
    s.add(z3.ULE(b,1)); ok=all(s.check(ev.sbuf[i]!=exp[i])==z3.unsat for i in range(4)); print('   with b in {0,1}:', ok)
    # decode
    f=load(path,'DecodeInner'); ev=Ev(big); ev.cells['m.a']=z3.BitVecVal(0,32); ev.cells['m.b']=z3.BitVecVal(0,8)
    ev.stmt([c for c in f['inner'] if c['kind']=='CompoundStmt'][0])
    sb=[ev.sbuf.get(i, z3.BitVec('s%d'%i,8)) for i in range(4)]
    raw=z3.Concat(sb[2],sb[1],sb[0]); expa=z3.SignExt(8,raw); expb=z3.ZeroExt(7,z3.Extract(0,0,sb[3]))
    s=z3.Solver(); print('DecodeInner', 'BE' if big else 'LE', s.check(ev.cells['m.a']!=expa)==z3.unsat, s.check(ev.cells['m.b']!=expb)==z3.unsat)
