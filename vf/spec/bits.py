"""Specification vocabulary over the bit-vector model (DESIGN 2.2).

All terms are BitVec(BVW) unless stated; byte buffers are Array(BV(BVW) -> BV(8)).
"""
import z3

from ..pysym.engine import BVW

W = BVW


def bv(n):
    return z3.BitVecVal(n, W)


def sbit(buf, k):
    """stream bit k  =  bit (k mod 8) of byte (k div 8); BV(1).  k >= 0."""
    return z3.Extract(0, 0, z3.LShR(buf[z3.UDiv(k, bv(8))], z3.Extract(7, 0, z3.URem(k, bv(8)))))


def vbit(v, k):
    """bit k of the two's-complement integer v (arithmetic shift: defined for negative v); BV(1)."""
    return z3.Extract(0, 0, v >> k)


def pow2(n):
    return bv(1) << n


def low(v, n):
    """v mod 2^n."""
    return v & (pow2(n) - 1)


def sx(u, n):
    """the integer in [-2^(n-1), 2^(n-1)) congruent to u mod 2^n   (1 <= n < W)."""
    lo = low(u, n)
    return z3.If(vbit(lo, n - 1) == 1, lo - pow2(n), lo)


def min3(a, b, c):
    m = z3.If(a < b, a, b)
    return z3.If(m < c, m, c)


def storage(n):
    """smallest of 8,16,32,64 that is >= n (python int -> int)."""
    for k in (8, 16, 32, 64):
        if n <= k:
            return k
    raise ValueError(n)
