"""Bounded stand-ins: native, exhaustive-up-to-a-bound runs of real functions that the VC generator cannot reach
(regex / str-library code behind PLY).  They are labelled `bounded`, reported under coverage.bounded_standins and
NEVER counted as discharged obligations.  A failing input is a violation with a native witness."""
from __future__ import annotations

import itertools
import json
import os
import signal
import time
from typing import Dict, List

ROOT = os.path.dirname(os.path.dirname(os.path.dirname(os.path.abspath(__file__))))


class _Timeout(Exception):
    pass


def _alarm(signum, frame):
    raise _Timeout()


def _write_replay(prop: str, name: str, doc: dict) -> str:
    d = os.path.join(os.environ.get("VERIF_OUT") or ROOT, "replays", prop)
    os.makedirs(d, exist_ok=True)
    path = os.path.join(d, "standin_%s.json" % name)
    with open(path, "w") as f:
        json.dump(doc, f, indent=1, default=repr)
    return os.path.relpath(path, ROOT)


ESC = {"t": "\t", "r": "\r", "n": "\n", "\\": "\\", "'": "'", '"': '"'}


def _ref_string_body(body: str):
    """reference reading of a string literal body: ('ok', value) | ('bad-escape',) | ('not-a-literal',)"""
    out, i = [], 0
    while i < len(body):
        ch = body[i]
        if ch == "\n" or ch == '"':
            return ("not-a-literal",)
        if ch == "\\":
            if i + 1 >= len(body):
                return ("not-a-literal",)
            nx = body[i + 1]
            if nx == "\n":
                return ("not-a-literal",)
            if nx not in ESC:
                return ("bad-escape",)
            out.append(ESC[nx])
            i += 2
        else:
            out.append(ch)
            i += 1
    return ("ok", "".join(out))


def lexer_strings(prop: str, tier: str, seed: int) -> dict:
    """every text of length <= L over {", \\, n, a, newline, e-acute, space} through the REAL lexer (PLY): it terminates, raises
    nothing but a bitproto parser error, counts exactly the physical newlines, and a complete string literal yields exactly its
    unescaped value"""
    import bitproto.lexer as LX
    import bitproto.errors as ER
    L = 5 if tier == "quick" else 6
    alphabet = ['"', "\\", "n", "a", "\n", "é", " "]
    lx = LX.Lexer(filepath_stack=["f.bitproto"])
    n, fails = 0, []
    t0 = time.time()
    old = signal.signal(signal.SIGALRM, _alarm)
    try:
        for ln in range(0, L + 1):
            for tup in itertools.product(alphabet, repeat=ln):
                text = "".join(tup)
                n += 1
                toks, err = [], None
                signal.alarm(10)
                try:
                    lx.lexer.lineno = 1
                    lx.input(text)
                    while True:
                        tk = lx.token()
                        if tk is None:
                            break
                        toks.append((tk.type, tk.value))
                except ER.ParserError as e:
                    err = e
                except _Timeout:
                    fails.append({"input": text, "what": "lexing did not terminate within 10 s"})
                    continue
                except Exception as e:
                    fails.append({"input": text, "what": "internal exception %r escaped the lexer" % (e,)})
                    continue
                finally:
                    signal.alarm(0)
                if err is None and lx.lexer.lineno != 1 + text.count("\n"):
                    fails.append({"input": text, "what": "line counter is %d after %d physical newlines" % (lx.lexer.lineno, text.count("\n"))})
                if len(text) >= 2 and text[0] == '"' and text[-1] == '"':
                    ref = _ref_string_body(text[1:-1])
                    if ref[0] == "ok":
                        if err is not None or toks != [("STRING_LITERAL", ref[1])]:
                            fails.append({"input": text, "what": "string literal should denote %r, got %r / %r" % (ref[1], toks, err)})
                    elif ref[0] == "bad-escape":
                        if not isinstance(err, ER.ParserError):
                            fails.append({"input": text, "what": "unsupported escape should be a parser error, got %r" % (toks,)})
                if len(fails) > 20:
                    break
            if len(fails) > 20:
                break
    finally:
        signal.signal(signal.SIGALRM, old)
    return {"name": "lexer-strings", "function": "compiler/bitproto/lexer.py Lexer (t_STRING_LITERAL, t_newline, t_error) through PLY",
            "bound": "all texts of length <= %d over the alphabet %r" % (L, alphabet), "evaluations": n,
            "failures": fails, "wall_s": round(time.time() - t0, 2), "level": "bounded"}


def case_converters(prop: str, tier: str, seed: int) -> dict:
    """pascal_case / snake_case / upper_case on every identifier of length <= L over {a, B, _, 1}: return a str, raise nothing"""
    import bitproto.utils as U
    L = 5 if tier == "quick" else 7
    alphabet = ["a", "B", "_", "1"]
    n, fails = 0, []
    t0 = time.time()
    for ln in range(0, L + 1):
        for tup in itertools.product(alphabet, repeat=ln):
            w = "".join(tup)
            for fn in ("pascal_case", "snake_case", "upper_case"):
                if not hasattr(U, fn):
                    continue
                n += 1
                try:
                    r = getattr(U, fn)(w)
                    if not isinstance(r, str):
                        fails.append({"input": w, "what": "%s returned %r" % (fn, r)})
                except Exception as e:
                    fails.append({"input": w, "what": "%s raised %r" % (fn, e)})
            if len(fails) > 20:
                break
    return {"name": "case-converters", "function": "compiler/bitproto/utils.py pascal_case, snake_case, upper_case",
            "bound": "all identifiers of length <= %d over %r" % (L, alphabet), "evaluations": n, "failures": fails,
            "wall_s": round(time.time() - t0, 2), "level": "bounded"}


def run_standins(prop: str, fns, tier: str, seed: int) -> dict:
    out = {"violations": [], "errors": [], "coverage": {"bounded_standins": []}}
    for fn in fns:
        try:
            r = fn(prop, tier, seed)
        except Exception as e:
            out["errors"].append("bounded stand-in %s crashed: %r" % (fn.__name__, e))
            continue
        summary = dict(r)
        summary["failures"] = len(r["failures"])
        summary["first_failures"] = r["failures"][:3]
        out["coverage"]["bounded_standins"].append(summary)
        if r["failures"]:
            path = _write_replay(prop, r["name"], {"property": prop, "stand_in": r["name"], "function": r["function"],
                                                   "bound": r["bound"], "failing_inputs": r["failures"][:20],
                                                   "reproduced_on_real_code": True,
                                                   "how_to_replay": "bin/vcheck %s --tier %s (the stand-in re-runs natively)" % (prop, tier)})
            out["violations"].append({"replay": path, "reproduced": True,
                                      "what": "bounded stand-in %s: %d failing input(s), first: %r -> %s" % (
                                          r["name"], len(r["failures"]), r["failures"][0]["input"], r["failures"][0]["what"])})
    return out


def _read_c_like_literal(text: str, lang: str = "c"):
    """reader of a double-quoted C / Go interpreted string literal restricted to the escapes \\\\ \\" \\n \\r \\t \\'
    (returns the denoted string, or None if the text is not ONE well-formed literal)"""
    if len(text) < 2 or text[0] != '"' or text[-1] != '"':
        return None
    body, out, i = text[1:-1], [], 0
    while i < len(body):
        ch = body[i]
        if ch == '"' or ch == "\n" or ch == "\r":
            return None                      # unescaped quote / raw line break ends or breaks the literal
        if ch == "\\":
            if i + 1 >= len(body):
                return None
            m = {"\\": "\\", '"': '"', "n": "\n", "r": "\r", "t": "\t", "'": "'"}.get(body[i + 1])
            if m is None or (lang == "go" and body[i + 1] == "'"):
                return None                  # Go: \' is an escape of rune literals only - "unknown escape sequence" in a string
            out.append(m)
            i += 2
        else:
            out.append(ch)
            i += 1
    return "".join(out)


def string_literals(prop: str, tier: str, seed: int) -> dict:
    """format_str_value of the three formatters on every string of length <= L over {a, ", \\, newline, tab, CR, ', e-acute, space}:
    the emitted text is ONE literal of the target language that denotes exactly the value (Python: ast.literal_eval;
    C and Go: a reader of their common escape subset)"""
    import ast
    from bitproto.renderer.impls.c.formatter import CFormatter
    from bitproto.renderer.impls.go.formatter import GoFormatter
    from bitproto.renderer.impls.py.formatter import PyFormatter
    L = 4 if tier == "quick" else 5
    alphabet = ["a", '"', "\\", "\n", "\t", "\r", "'", "é", " "]
    fms = {"c": CFormatter(), "go": GoFormatter(), "py": PyFormatter()}
    n, fails = 0, []
    t0 = time.time()
    for ln in range(0, L + 1):
        for tup in itertools.product(alphabet, repeat=ln):
            v = "".join(tup)
            for lang, fm in fms.items():
                n += 1
                try:
                    text = fm.format_str_value(v)
                    if lang == "py":
                        try:
                            got = ast.literal_eval(text)
                        except Exception:
                            got = None
                    else:
                        got = _read_c_like_literal(text, lang)
                    if got != v:
                        fails.append({"input": v, "what": "%s literal %r denotes %r" % (lang, text, got)})
                except Exception as e:
                    fails.append({"input": v, "what": "%s formatter raised %r" % (lang, e)})
            if len(fails) > 20:
                break
        if len(fails) > 20:
            break
    return {"name": "string-literals", "function": "format_str_value of CFormatter, GoFormatter, PyFormatter",
            "bound": "all strings of length <= %d over %r" % (L, alphabet), "evaluations": n, "failures": fails,
            "wall_s": round(time.time() - t0, 2), "level": "bounded"}
