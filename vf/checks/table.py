"""Which proofs decide which property, per tier."""
from __future__ import annotations

import importlib
from typing import Dict, List, Optional

from ..core import registry

TRUST_PY = [
    "CPython 3.11 executes the real source; object model, dataclasses, context managers, exceptions run natively (not modelled)",
    "Python int modelled as 128-bit two's-complement bit-vectors with a no-overflow obligation on every + - * << unary- "
    "(exact when those discharge), or as z3 Int for structural code",
    "int(a / 2^k) == a div 2^k under the discharged obligation 0 <= a < 2^53",
    "z3 5.1 / cvc5 1.0.3 'unsat' verdicts",
    "the AST loop cut (assert inv; havoc; assume inv; one body; assert inv, variant) is the only source transformation",
]


class Check:
    def __init__(self, prop: str, modules: List[str], level: str = "proof", trusted_base: Optional[List[str]] = None,
                 assumptions: Optional[List[str]] = None, explanation: str = "", program_units=None, standins=None):
        self.prop = prop
        self.modules = modules
        self.level = level
        self.trusted_base = trusted_base or TRUST_PY
        self.assumptions = assumptions or []
        self.explanation = explanation
        self.program_units = program_units
        self.standins = standins or []

    def extras(self, tier: str, seed: int) -> dict:
        if not self.standins:
            return {}
        from . import standins as ST
        return ST.run_standins(self.prop, [getattr(ST, n) for n in self.standins], tier, seed)

    def load(self):
        for m in self.modules:
            importlib.import_module("vf.contracts." + m)
        if self.program_units:
            self.program_units.register(self.prop)

    def select(self, tier: str, seed: int) -> List[str]:
        out = []
        for p in registry.PROOFS.values():
            if self.prop in p.props:
                if tier == "quick" and getattr(p, "tier", "quick") != "quick":
                    continue
                out.append(p.pid)
        return out


CHECKS: Dict[str, Check] = {}


def add(c: Check):
    CHECKS[c.prop] = c


def get(prop: str) -> Optional[Check]:
    _build()
    return CHECKS.get(prop)


_built = False


def _build():
    global _built
    if _built:
        return
    _built = True
    bp_mods = ["py_bp", "py_bp_struct", "gen_py", "gen_c", "gen_go", "py_formatter", "c_bitproto"]
    add(Check("C19", ["gen_go", "py_formatter"], explanation="Go: pure helpers of lib/go/bitproto.go proved against the same spec formulas as their Python "
              "twins; per template: struct fields / covering types / size constant / processor tree equal to the model and to the generated "
              "Python module's tree; generated accessors exercised end to end through the real Go runtime"))
    for pr, ex in [
        ("C02", "Python decode: process_base_type (decode) proved against the bit-view invariant for unsigned and intN "
                "accessors; sign lemmas; decode-side cursor/frame contracts of every processor class"),
        ("C05", "decode-side cursor contract of Array/MessageProcessor.process with the sender's 16-bit prefix as a free value"),
        ("C07", "frame clauses of all encode/decode contracts (bit-exact frame of the leaf copier for ANY integer value; "
                "access-window clause of every processor class)"),
        ("C14", "leaf contracts quantified over width 1..64, offset, position and all values subsume the finite grid"),
    ]:
        add(Check(pr, bp_mods + ["py_ast"], explanation=ex))
    for pr, ex in [
        ("C03", "C standard mode: the generated descriptors and the REAL runtime lib/c/bitproto.c are interpreted together "
                "(clang AST) per template; Encode == reference bytes for all storage contents, Decode == value"),
        ("C04", "optimization mode: generated -O C for --endian both (either preprocessor branch), little, big, interpreted "
                "per template and proved equal to the reference layout (hence to standard mode, C03)"),
        ("C06", "big-endian: the -DBP_BIG_ENDIAN AST of runtime + generated code interpreted under a big-endian memory "
                "model gives the same wire bytes / values as the little-endian run (same reference layout)"),
    ]:
        add(Check(pr, ["gen_c", "gen_go", "py_formatter"] if pr == "C04" else ["gen_c", "py_formatter", "c_bitproto"], explanation=ex))
    add(Check("C12", bp_mods + ["py_ast", "py_parser"], explanation="wire format depends only on field numbers and resolved types: alias/enum "
              "transparency and sorted-order contracts (_ast.py, bp.py), every listed rewrite of a base schema proved per program "
              "(Python, C standard, C -O) against its own reference layout, and the lemma that those layouts are bit-identical"))
    add(Check("C16", ["gen_c", "gen_py", "c_bitproto"], explanation="JSON: the generated C Json function + the real runtime emit, as a sequence of "
              "BpJsonFormatString calls, exactly the prescribed JSON value; the generated Python to_dict/to_json give the same value"))
    # NOT in MANIFEST.json: the generic loop-invariant proofs of BpCopyBufferBits (unbounded n).  Every obligation discharges on an
    # idle machine, but verdicts of a few quantified bit-vector queries flip to `unknown` under load, so they are not registered
    # (DESIGN.md section 12).  Run by hand:  bin/vcheck XC   (and  bin/vcheck XC-full  for the little-endian content clause).
    add(Check("XC", ["c_bitproto"], explanation="experimental, unregistered: BpCopyBufferBits loop-invariant proofs"))
    add(Check("XC-full", ["c_bitproto"], explanation="experimental, unregistered: BpCopyBufferBits little-endian body, full contract"))
    comp = ["py_ast", "py_parser", "py_main_lint"]
    for pr, ex in [
        ("C08", "two-sided 'raises X <=> constraint violated' contracts on every validator of _ast.py / options.py for ALL integers "
                "(nodes are really constructed, so the freeze plumbing runs), on the parser actions that build the nodes, on the "
                "reference lookup, and on main's error -> non-zero exit control flow"),
        ("C09", "no-exception obligations (nothing but a bitproto error leaves the function) on the parser / lexer action functions"),
        ("C11", "contract of _lookup_referenced_member (innermost scope of the current file that resolves the name, loop invariant "
                "over an abstract scope stack of any depth), Scope.get_member, the reference actions, parse_child"),
        ("C13", "contracts of the constant-expression actions for all integers (floor division, division by zero is a parser error), "
                "the precedence table, literal tokens, value pass-through to array capacities and options"),
        ("C17", "contracts on main (every argument / outcome combination), parse_child, p_optional_extensible_flag, "
                "check_proto_for_optimization_mode, the three -F filters (abstract list + exact-name examples)"),
        ("C20", "contracts on Linter.lint (count, reports, no mutation), every lint rule, main's check-mode exit, _get_col / "
                "current_indent (rfind by its specification)"),
    ]:
        add(Check(pr, comp + (["gen_all"] if pr == "C09" else []) + (["gen_c", "gen_py"] if pr == "C11" else []) + (["gen_c"] if pr == "C17" else []), explanation=ex, standins={"C09": ["lexer_strings", "case_converters"], "C13": ["lexer_strings", "string_literals"],
                                                     "C20": ["lexer_strings"]}.get(pr)))
    add(Check("C01", bp_mods + ["py_ast"], explanation="Python encoder layout: contracts on bp.py (leaf bit copier with quantified "
              "bit-view invariant; cursor/frame/call-order contracts of every processor class against the abstract "
              "process contract)"))
