"""gosym front end: a Go-subset tokenizer (with automatic semicolon insertion) and recursive-descent parser -> tuple AST.
Covers what lib/go/bitproto.go and generated files use; anything else is a SyntaxError naming the construct (checker error),
never a silent skip.  There is no Go tool chain in this sandbox: this parser and the interpreter's typing are trusted."""
import re
TOK = re.compile(r'''
 (?P<ws>[ \t\r]+)|(?P<nl>\n)|(?P<lc>//[^\n]*)|(?P<bc>/\*.*?\*/)|
 (?P<raw>`[^`]*`)|(?P<str>"(?:\\.|[^"\\])*")|(?P<chr>'(?:\\.|[^'\\])*')|
 (?P<num>0[xX][0-9a-fA-F]+|[0-9]+)|(?P<id>[A-Za-z_][A-Za-z_0-9]*)|
 (?P<op><<=|>>=|&\^=|\.\.\.|&&|\|\||<-|\+\+|--|==|!=|<=|>=|:=|\+=|-=|\*=|/=|%=|&=|\|=|\^=|<<|>>|&\^|[-+*/%&|^<>=!(){}\[\],;.:])
''', re.X|re.S)
KW = {'break','case','chan','const','continue','default','defer','else','fallthrough','for','func','go','goto','if','import','interface','map','package','range','return','select','struct','switch','type','var'}
def lex(src):
    out=[]; pos=0; line=1
    def asi():
        if out and (out[-1][0] in ('id','num','str','raw','chr') or out[-1][1] in ('break','continue','fallthrough','return','++','--',')',']','}')) and not (out[-1][0]=='kw' and out[-1][1] not in ('break','continue','fallthrough','return')):
            out.append(('op',';',line))
    while pos < len(src):
        m=TOK.match(src,pos)
        if not m: raise SyntaxError(f'lex error line {line}: {src[pos:pos+20]!r}')
        k=m.lastgroup; v=m.group(k); pos=m.end()
        if k=='nl': asi(); line+=1
        elif k in ('ws',): pass
        elif k=='lc': pass
        elif k=='bc': line+=v.count('\n')
        elif k=='id': out.append(('kw' if v in KW else 'id', v, line))
        else: out.append((k,v,line)); line+=v.count('\n') if k=='raw' else 0
    asi(); out.append(('eof','',line)); return out
class P:
    def __init__(s,toks): s.t=toks; s.i=0; s.nolit=0
    def pk(s,o=0): return s.t[s.i+o]
    def at(s,v): return s.pk()[1]==v and s.pk()[0] in ('op','kw')
    def eat(s,v=None,kind=None):
        t=s.pk()
        if (v is not None and not (t[1]==v and t[0] in('op','kw'))) or (kind and t[0]!=kind): raise SyntaxError(f'line {t[2]}: expected {v or kind}, got {t[1]!r}')
        s.i+=1; return t
    def semi(s):
        if s.at(';'): s.eat(';')
        elif s.at(')') or s.at('}'): pass
        else: s.eat(';')
    # ---- file
    def file(s):
        s.eat('package'); pkg=s.eat(kind='id')[1]; s.semi(); ds=[]
        while s.pk()[0]!='eof':
            ds.append(s.topdecl()); s.semi()
        return ('file',pkg,ds)
    def topdecl(s):
        if s.at('import'):
            s.eat('import'); specs=[]
            def spec():
                name=None
                if s.pk()[0]=='id' or s.at('.'): name=s.eat()[1]
                specs.append((name,s.eat(kind='str')[1]))
            s.group(spec); return ('import',specs)
        if s.at('func'): return s.funcdecl()
        return s.decl()
    def group(s,f):
        if s.at('('):
            s.eat('(')
            while not s.at(')'): f(); s.semi()
            s.eat(')')
        else: f()
    def decl(s):
        kw=s.eat()[1]; out=[]
        if kw=='type':
            def f():
                n=s.eat(kind='id')[1]; alias=False
                if s.at('='): s.eat('='); alias=True
                out.append(('type',n,alias,s.typ()))
        else:
            def f():
                names=[s.eat(kind='id')[1]]
                while s.at(','): s.eat(','); names.append(s.eat(kind='id')[1])
                ty=None; vals=None
                if not s.at('=') and not s.at(';') and not s.at(')'): ty=s.typ()
                if s.at('='): s.eat('='); vals=s.exprlist()
                out.append((kw,names,ty,vals))
        s.group(f); return ('decls',out)
    def typ(s):
        t=s.pk()
        if s.at('*'): s.eat('*'); return ('ptr',s.typ())
        if s.at('['):
            s.eat('[')
            if s.at(']'): s.eat(']'); return ('slice',s.typ())
            n=s.expr(); s.eat(']'); return ('array',n,s.typ())
        if s.at('struct'):
            s.eat('struct'); s.eat('{'); fs=[]
            while not s.at('}'):
                names=[s.eat(kind='id')[1]]
                while s.at(','): s.eat(','); names.append(s.eat(kind='id')[1])
                ty=s.typ(); tag=None
                if s.pk()[0] in('raw','str'): tag=s.eat()[1]
                fs.append((names,ty,tag)); s.semi()
            s.eat('}'); return ('struct',fs)
        if s.at('interface'):
            s.eat('interface'); s.eat('{'); ms=[]
            while not s.at('}'):
                n=s.eat(kind='id')[1]; ms.append((n,s.signature())); s.semi()
            s.eat('}'); return ('interface',ms)
        if s.at('func'): s.eat('func'); return ('functype',s.signature())
        if s.at('('): s.eat('('); x=s.typ(); s.eat(')'); return x
        n=s.eat(kind='id')[1]
        if s.at('.'): s.eat('.'); n+='.'+s.eat(kind='id')[1]
        return ('name',n)
    def params(s):
        s.eat('('); ps=[]
        while not s.at(')'):
            # forms: "a, b T" | "a T" | "T" | "_ *T"
            save=s.i; names=[]
            try:
                names=[s.eat(kind='id')[1]]
                while s.at(','): s.eat(','); names.append(s.eat(kind='id')[1])
                if s.at(')') or s.at(','): raise SyntaxError('types only')
                ty=s.typ(); ps.append((names,ty))
            except SyntaxError:
                s.i=save; ps.append(([],s.typ()))
            if s.at(','): s.eat(',')
        s.eat(')'); return ps
    def signature(s):
        ps=s.params(); res=None
        if s.at('('): res=s.params()
        elif not (s.at('{') or s.at(';') or s.at('}') or s.at(')') or s.at(',')): res=[([],s.typ())]
        return (ps,res)
    def funcdecl(s):
        s.eat('func'); recv=None
        if s.at('('): recv=s.params()
        name=s.eat(kind='id')[1]; sig=s.signature(); body=s.block() if s.at('{') else None
        return ('func',recv,name,sig,body)
    # ---- statements
    def block(s):
        s.eat('{'); st=[]
        while not s.at('}'): st.append(s.stmt()); s.semi()
        s.eat('}'); return ('block',st)
    def simple(s):
        xs=s.exprlist()
        t=s.pk()
        if t[0]=='op' and t[1] in (':=','=','+=','-=','*=','/=','%=','&=','|=','^=','<<=','>>=','&^='):
            op=s.eat()[1]
            if s.at('range'): s.eat('range'); return ('range',op,xs,s.expr())
            return ('assign',op,xs,s.exprlist())
        if t[1] in ('++','--'): s.eat(); return ('incdec',t[1],xs[0])
        return ('expr',xs[0])
    def stmt(s):
        t=s.pk()
        if s.at('{'): return s.block()
        if s.at('var') or s.at('const') or s.at('type'): return s.decl()
        if s.at('return'):
            s.eat('return'); return ('return', [] if (s.at(';') or s.at('}')) else s.exprlist())
        if s.at('defer'): s.eat('defer'); return ('defer',s.expr())
        if s.at('break') or s.at('continue'): return (s.eat()[1],)
        if s.at('if'):
            s.eat('if'); s.nolit+=1; init=None; c=s.simple()
            if s.at(';'): s.eat(';'); init=c; c=s.simple()
            s.nolit-=1; th=s.block(); el=None
            if s.at('else'): s.eat('else'); el=s.stmt()
            return ('if',init,c[1],th,el)
        if s.at('for'):
            s.eat('for'); s.nolit+=1; init=cond=post=None
            if s.at('{'): pass
            else:
                if s.at('range'): s.eat('range'); x=s.expr(); s.nolit-=1; return ('forrange',None,[],x,s.block())
                first=None if s.at(';') else s.simple()
                if first and first[0]=='range': s.nolit-=1; return ('forrange',first[1],first[2],first[3],s.block())
                if s.at(';'):
                    s.eat(';'); init=first
                    cond=None if s.at(';') else s.expr()
                    s.eat(';'); post=None if s.at('{') else s.simple()
                else: cond=first[1]
            s.nolit-=1; return ('for',init,cond,post,s.block())
        if s.at('switch'):
            s.eat('switch'); s.nolit+=1; tag=None if s.at('{') else s.expr(); s.nolit-=1; s.eat('{'); cases=[]
            while not s.at('}'):
                if s.at('default'): s.eat('default'); vals=None
                else: s.eat('case'); vals=s.exprlist()
                s.eat(':'); body=[]
                while not (s.at('case') or s.at('default') or s.at('}')): body.append(s.stmt()); s.semi()
                cases.append((vals,body))
            s.eat('}'); return ('switch',tag,cases)
        return s.simple()
    # ---- expressions
    PREC={'||':1,'&&':2,'==':3,'!=':3,'<':3,'<=':3,'>':3,'>=':3,'+':4,'-':4,'|':4,'^':4,'*':5,'/':5,'%':5,'<<':5,'>>':5,'&':5,'&^':5}
    def exprlist(s):
        xs=[s.expr()]
        while s.at(','): s.eat(','); xs.append(s.expr())
        return xs
    def expr(s,p=1):
        x=s.unary()
        while s.pk()[0]=='op' and s.PREC.get(s.pk()[1],0)>=p:
            op=s.eat()[1]; y=s.expr(s.PREC[op]+1); x=('bin',op,x,y)
        return x
    def unary(s):
        if s.pk()[0]=='op' and s.pk()[1] in ('-','+','!','^','*','&'):
            op=s.eat()[1]; return ('un',op,s.unary())
        return s.primary()
    def primary(s):
        t=s.pk()
        if t[0]=='num': s.eat(); x=('int',int(t[1],0))
        elif t[0] in('str','raw'): s.eat(); x=('str',t[1])
        elif t[0]=='chr': s.eat(); x=('chr',t[1])
        elif s.at('('): s.eat('('); s.nolit,save=0,s.nolit; x=('paren',s.expr()); s.nolit=save; s.eat(')')
        elif s.at('[') or s.at('struct') or s.at('func') and False:
            ty=s.typ(); x=('type',ty)
        elif s.at('func'):
            s.eat('func'); sig=s.signature(); x=('funclit',sig,s.block())
        elif t[0]=='id': s.eat(); x=('id',t[1])
        else: raise SyntaxError(f'line {t[2]}: unexpected {t[1]!r}')
        while True:
            if s.at('.'): s.eat('.'); x=('sel',x,s.eat(kind='id')[1])
            elif s.at('('):
                s.eat('('); s.nolit,save=0,s.nolit; args=[] 
                while not s.at(')'):
                    args.append(s.typ_or_expr()); 
                    if s.at(','): s.eat(',')
                s.nolit=save; s.eat(')'); x=('call',x,args)
            elif s.at('['):
                s.eat('['); s.nolit,save=0,s.nolit
                lo=None if s.at(':') else s.expr()
                if s.at(':'): s.eat(':'); hi=None if s.at(']') else s.expr(); x=('slice',x,lo,hi)
                else: x=('index',x,lo)
                s.nolit=save; s.eat(']')
            elif s.at('{') and not s.nolit and x[0] in ('id','sel','type'):
                s.eat('{'); els=[]; s.nolit,save=0,s.nolit
                while not s.at('}'):
                    e=s.expr()
                    if s.at(':'): s.eat(':'); e=('kv',e,s.expr())
                    els.append(e)
                    if s.at(','): s.eat(',')
                    elif s.at(';'): s.eat(';')
                s.nolit=save; s.eat('}'); x=('complit',x,els)
            else: return x
    def typ_or_expr(s):
        if s.at('[') or s.at('*') and False: return ('type',s.typ())
        return s.expr()


def parse_file(src: str):
    return P(lex(src)).file()
