"""gosym: interpreter for the Go subset used by lib/go/bitproto.go and generated Go files.

Per-program mode (like csym): control flow concrete, data symbolic (z3 bit-vectors of the Go type's width); a symbolic
condition forks through the pysym engine (re-execution with a decision prefix).
Semantics implemented (Go spec): int = 64 bit; sized integers wrap; conversions truncate / extend by the SOURCE signedness;
>> on signed is arithmetic; shift counts >= width give 0 (or the sign); negative shift count, out-of-range index, nil
dereference and integer division by zero panic (= failing obligations); structs and arrays have value semantics, slices and
pointers reference semantics; untyped constants adapt to the other operand; `defer` runs at function exit.
"""
from __future__ import annotations

import copy
from typing import Any, Dict, List, Optional, Tuple

import sys

import z3

from ..pysym import engine as EN
from .parser import parse_file

BUILTIN_INT = {"int": (64, True), "int8": (8, True), "int16": (16, True), "int32": (32, True), "int64": (64, True),
               "uint": (64, False), "uint8": (8, False), "uint16": (16, False), "uint32": (32, False), "uint64": (64, False),
               "byte": (8, False), "uintptr": (64, False), "rune": (32, True)}


class GoUnsupported(Exception):
    pass


class GoTypeError(GoUnsupported):
    """an operation no Go compiler accepts (arithmetic on an array / struct / slice value): the program is ill-typed - for GENERATED code
    that is a defect of the generator, not a limit of this interpreter"""


class GoPanic(Exception):
    pass


class _Return(Exception):
    def __init__(self, vals):
        self.vals = vals


class _Break(Exception):
    pass


class _Continue(Exception):
    pass


# ----------------------------------------------------------------------------- values
class GI:
    """typed integer: tn = type name (possibly 'pkg.Name'), bits, signed, v = python int | z3 BitVec(bits)"""
    __slots__ = ("tn", "bits", "signed", "v")

    def __init__(self, tn, bits, signed, v):
        self.tn, self.bits, self.signed = tn, bits, signed
        if z3.is_expr(v):
            v = z3.simplify(v)
            if z3.is_bv_value(v):
                v = v.as_long()
        if not z3.is_expr(v):
            v &= (1 << bits) - 1
            if signed and v >> (bits - 1):
                v -= 1 << bits
        self.v = v

    def term(self):
        return self.v if z3.is_expr(self.v) else z3.BitVecVal(self.v, self.bits)

    def sym(self):
        return z3.is_expr(self.v)

    def __repr__(self):
        return "%s(%s)" % (self.tn, self.v)


class GB:
    """value of a NAMED boolean type (keeps the type name for method lookup)"""
    __slots__ = ("tn", "v")

    def __init__(self, tn, v):
        self.tn, self.v = tn, v


def unb(v):
    return v.v if isinstance(v, GB) else v


class GStruct:
    def __init__(self, tn, fields):
        self.tn, self.f = tn, fields


class GPtr:
    def __init__(self, target):
        self.t = target


class GArray:
    def __init__(self, tn, items):
        self.tn, self.items = tn, items


class GSlice:
    def __init__(self, items, lo=0, hi=None):
        self.items, self.lo, self.hi = items, lo, len(items) if hi is None else hi

    def __len__(self):
        return self.hi - self.lo


class GSymBytes:
    """a []byte of symbolic length with symbolic contents: arr = z3 Array(BV64 -> BV8), n = BV64 length (contract proofs of the
    single-byte copiers: every buffer length, every cursor)"""

    def __init__(self, arr, n):
        self.arr, self.n = arr, n


class GStub:
    """abstract object of a contract: methods is  name -> callable(interp, args) -> list of results  (a callee known only by its
    contract - e.g. the element Processor of an array, an Accessor)"""

    def __init__(self, tn, methods):
        self.tn, self.methods = tn, methods


class GoLoopCut:
    """inductive cut of a `for init; cond; post` loop: inv(env) -> [(name, bool term)], variant(env) -> BV term (strictly decreasing,
    signed >= 0), havoc = local names that get fresh values, pre_assume(env) = hook havocking whatever else the loop modifies"""

    def __init__(self, inv, variant, havoc, pre_assume=None, at_back_edge=None):
        self.inv, self.variant, self.havoc, self.pre_assume, self.at_back_edge = inv, variant, havoc, pre_assume, at_back_edge


class GBound:
    """method value bound to a receiver"""

    def __init__(self, recv, pkg, decl, ptr_recv):
        self.recv, self.pkg, self.decl, self.ptr_recv = recv, pkg, decl, ptr_recv


def gcopy(v):
    """value semantics of assignment / parameter passing"""
    if isinstance(v, GStruct):
        return GStruct(v.tn, {k: gcopy(x) for k, x in v.f.items()})
    if isinstance(v, GArray):
        return GArray(v.tn, [gcopy(x) for x in v.items])
    return v


# ----------------------------------------------------------------------------- program
class Package:
    def __init__(self, name):
        self.name = name
        self.types: Dict[str, Any] = {}
        self.funcs: Dict[str, Any] = {}
        self.methods: Dict[Tuple[str, str], Any] = {}
        self.consts: Dict[str, Any] = {}
        self.vars: Dict[str, Any] = {}
        self.imports: Dict[str, str] = {}


class Program:
    def __init__(self):
        self.pk: Dict[str, Package] = {}
        self.import_paths: Dict[str, str] = {}      # import path -> package name

    def add(self, src: str, import_path: Optional[str] = None) -> Package:
        ast = parse_file(src)
        p = self.pk.setdefault(ast[1], Package(ast[1]))
        if import_path:
            self.import_paths[import_path] = ast[1]
        for d in ast[2]:
            if d[0] == "import":
                for alias, path in d[1]:
                    path = path.strip('"')
                    p.imports[alias or path.split("/")[-1]] = path
            elif d[0] == "func":
                _, recv, name, sig, body = d
                if recv:
                    (names, rty), = recv
                    ptr = rty[0] == "ptr"
                    tn = (rty[1] if ptr else rty)[1]
                    p.methods[(tn, name)] = (d, ptr, names[0] if names else "_")
                else:
                    p.funcs[name] = d
            elif d[0] == "decls":
                last_ty, last_val, iota = None, None, 0
                for x in d[1]:
                    if x[0] == "type":
                        p.types[x[1]] = x[3]
                    elif x[0] == "const":
                        _, names, ty, vals = x
                        if vals is None:
                            ty, vals = last_ty, last_val
                        else:
                            last_ty, last_val = ty, vals
                        for k, n in enumerate(names):
                            p.consts[n] = (ty, vals[k] if vals and k < len(vals) else None)
                        iota += 1
                    elif x[0] == "var":
                        _, names, ty, vals = x
                        for k, n in enumerate(names):
                            p.vars[n] = (ty, vals[k] if vals and k < len(vals) else None)
        return p

    def pkg_of_import(self, pkg: Package, alias: str) -> Optional[Package]:
        path = pkg.imports.get(alias)
        if path is None:
            return None
        name = self.import_paths.get(path, path.split("/")[-1])
        return self.pk.get(name)


# ----------------------------------------------------------------------------- interpreter
class Interp:
    def __init__(self, prog: Program, oblige=None, max_steps=3_000_000):
        self.p = prog
        self.oblige = oblige or (lambda kind, label, goal: None)
        self.steps = 0
        self.max_steps = max_steps
        self.depth = 0
        self.helper_contracts = {}      # runtime function name -> contract stub (callee contract instead of body)
        self.method_contracts = {}      # (type name, method name) -> callable(interp, recv, args) -> results
        self.loop_cuts = {}             # (function name, ordinal of the `for` statement reached in that call) -> GoLoopCut
        self.fstack = []                # [name, loops seen] per active call

    # ---- types
    def resolve(self, pkg: Package, t) -> Tuple[Package, Any, Optional[str]]:
        """follow names to the underlying type: returns (package of definition, underlying type expr, qualified name or None)"""
        qn = None
        seen = 0
        while t[0] == "name":
            n = t[1]
            if "." in n:
                a, b = n.split(".", 1)
                q = self.p.pkg_of_import(pkg, a)
                if q is None:
                    raise GoUnsupported("unknown package %s" % a)
                pkg, n = q, b
            if n in BUILTIN_INT or n in ("bool", "string", "error"):
                return pkg, ("name", n), qn
            if n not in pkg.types:
                raise GoUnsupported("unknown type %s in package %s" % (n, pkg.name))
            qn = qn or ("%s.%s" % (pkg.name, n))
            t = pkg.types[n]
            seen += 1
            if seen > 50:
                raise GoUnsupported("type cycle")
        return pkg, t, qn

    def zero(self, pkg: Package, t):
        dp, u, qn = self.resolve(pkg, t)
        if u[0] == "name":
            n = u[1]
            if n in BUILTIN_INT:
                b, s = BUILTIN_INT[n]
                return GI(qn or n, b, s, 0)
            if n == "bool":
                return GB(qn, False) if qn else False
            if n == "string":
                return ""
            return None
        if u[0] == "struct":
            f = {}
            for names, fty, tag in u[1]:
                for nm in names:
                    f[nm] = self.zero(dp, fty)
            return GStruct(qn, f)
        if u[0] == "array":
            n = self.const_int(dp, u[1])
            return GArray(qn, [self.zero(dp, u[2]) for _ in range(n)])
        return None         # ptr, slice, interface, func

    def const_int(self, pkg, e) -> int:
        v = self.ev(pkg, {}, e)
        if isinstance(v, GI):
            v = v.v
        if not isinstance(v, int):
            raise GoUnsupported("non-constant array length")
        return v

    def int_info(self, pkg, tname_expr):
        dp, u, qn = self.resolve(pkg, tname_expr)
        if u[0] == "name" and u[1] in BUILTIN_INT:
            b, s = BUILTIN_INT[u[1]]
            return qn or u[1], b, s
        return None

    # ---- helpers
    def ob(self, kind, label, goal):
        self.oblige(kind, label, goal)

    def panic(self, what):
        self.ob("no-exception", "panic: " + what, False)
        raise GoPanic(what)

    def truth(self, v):
        v = unb(v)
        if isinstance(v, bool):
            return v
        if z3.is_expr(v) and z3.is_bool(v):
            v = z3.simplify(v)
            if z3.is_true(v):
                return True
            if z3.is_false(v):
                return False
            return EN.cur().branch(v)
        raise GoUnsupported("non-boolean condition %r" % (v,))

    # ---- calls
    def call_func(self, pkg: Package, decl, args, recv=None, recv_name=None):
        self.depth += 1
        if self.depth > 300:
            raise GoUnsupported("call depth")
        _, _recv, name, sig, body = decl
        env: Dict[str, Any] = {}
        if recv_name and recv_name != "_":
            env[recv_name] = [recv]
        params = []
        for names, ty in sig[0]:
            for n in (names or ["_"]):
                params.append((n, ty))
        if len(params) != len(args):
            raise GoUnsupported("arity mismatch calling %s" % name)
        for (n, ty), a in zip(params, args):
            env[n] = [self.assignable(pkg, ty, gcopy(a))]
        defers: List[Any] = []
        env["$defers"] = defers
        ret = []
        self.fstack.append([name, 0])
        try:
            self.block(pkg, env, body, new_scope=False)
        except _Return as r:
            ret = r.vals
        finally:
            self.fstack.pop()
            self.depth -= 1
            if not isinstance(sys.exc_info()[1], EN.StopPath):
                for d in reversed(defers):
                    d()
        if sig[1] and len(sig[1]) == 1 and ret:
            rt = sig[1][0][1]
            ret = [self.assignable(pkg, rt, ret[0])]
        return ret

    def assignable(self, pkg, ty, v):
        """untyped constant -> the declared integer type"""
        if isinstance(v, int) and not isinstance(v, bool):
            try:
                info = self.int_info(pkg, ty)
            except GoUnsupported:
                info = None
            if info:
                return GI(info[0], info[1], info[2], v)
        return v

    def method(self, recv, name):
        """(package, decl, ptr_receiver, recv_name, receiver value to bind)"""
        tn = None
        if isinstance(recv, GPtr):
            tn = recv.t.tn
        elif isinstance(recv, (GStruct, GArray)):
            tn = recv.tn
        elif isinstance(recv, (GI, GB)):
            tn = recv.tn
        if tn is None or "." not in tn:
            raise GoUnsupported("method %s on %r" % (name, recv))
        pn, n = tn.split(".", 1)
        pkg = self.p.pk[pn]
        m = pkg.methods.get((n, name))
        if m is None:
            raise GoUnsupported("type %s has no method %s" % (tn, name))
        decl, ptr, rname = m
        if ptr:
            r = recv if isinstance(recv, GPtr) else GPtr(recv)
        else:
            r = gcopy(recv.t) if isinstance(recv, GPtr) else gcopy(recv)
        return pkg, decl, r, rname

    # ---- statements
    def block(self, pkg, env, b, new_scope=True):
        e = dict(env) if new_scope else env
        for st in b[1]:
            self.stmt(pkg, e, st)

    def stmt(self, pkg, env, st):
        self.steps += 1
        if self.steps > self.max_steps:
            raise GoUnsupported("step budget exceeded")
        k = st[0]
        if k == "block":
            self.block(pkg, env, st)
        elif k == "expr":
            self.ev(pkg, env, st[1], multi=True)
        elif k == "assign":
            self.assign(pkg, env, st)
        elif k == "incdec":
            ref = self.lref(pkg, env, st[2])
            cur = ref[0]()
            ref[1](self.binop("+" if st[1] == "++" else "-", cur, 1))
        elif k == "return":
            vals = []
            for x in st[1]:
                v = self.ev(pkg, env, x, multi=True)
                if isinstance(v, list):
                    vals.extend(v)
                else:
                    vals.append(v)
            raise _Return(vals)
        elif k == "if":
            e = dict(env)
            if st[1] is not None:
                self.stmt(pkg, e, st[1])
            if self.truth(self.ev(pkg, e, st[2])):
                self.block(pkg, e, st[3])
            elif st[4] is not None:
                self.stmt(pkg, e, st[4])
        elif k == "for":
            e = dict(env)
            if st[1] is not None:
                self.stmt(pkg, e, st[1])
            cut = None
            if self.fstack:
                self.fstack[-1][1] += 1
                cut = self.loop_cuts.get((self.fstack[-1][0], self.fstack[-1][1]))
            if cut is not None:
                self._cut_loop(pkg, e, st, cut)
                return
            while True:
                if st[2] is not None and not self.truth(self.ev(pkg, e, st[2])):
                    break
                try:
                    self.block(pkg, e, st[4])
                except _Break:
                    break
                except _Continue:
                    pass
                if st[3] is not None:
                    self.stmt(pkg, e, st[3])
        elif k == "forrange":
            _, op, lhs, x, body = st
            seq = self.ev(pkg, env, x)
            if isinstance(seq, GSlice):
                items = [seq.items[seq.lo + i] for i in range(len(seq))]
            elif isinstance(seq, GArray):
                items = list(seq.items)
            else:
                raise GoUnsupported("range over %r" % (seq,))
            for i, it in enumerate(items):
                e = dict(env)
                names = [l[1] for l in lhs]
                if len(names) >= 1 and names[0] != "_":
                    e[names[0]] = [GI("int", 64, True, i)]
                if len(names) >= 2 and names[1] != "_":
                    e[names[1]] = [gcopy(it)]
                try:
                    self.block(pkg, e, body)
                except _Break:
                    break
                except _Continue:
                    continue
        elif k == "switch":
            tag = self.ev(pkg, env, st[1]) if st[1] is not None else True
            chosen = None
            default = None
            for vals, body in st[2]:
                if vals is None:
                    default = body
                    continue
                hit = False
                for vx in vals:
                    v = self.ev(pkg, env, vx)
                    if self.truth(self.binop("==", tag, v)):
                        hit = True
                        break
                if hit:
                    chosen = body
                    break
            body = chosen if chosen is not None else default
            if body is not None:
                e = dict(env)
                try:
                    for s2 in body:
                        self.stmt(pkg, e, s2)
                except _Break:
                    pass
        elif k == "decls":
            for x in st[1]:
                if x[0] == "var":
                    _, names, ty, vals = x
                    for i, n in enumerate(names):
                        if vals:
                            v = self.ev(pkg, env, vals[i])
                            if ty is not None:
                                v = self.assignable(pkg, ty, v)
                        else:
                            v = self.zero(pkg, ty)
                        env[n] = [self.default_type(gcopy(v))]
                else:
                    raise GoUnsupported("local %s declaration" % x[0])
        elif k == "defer":
            call = st[1]
            if call[0] != "call":
                raise GoUnsupported("defer of non-call")
            fn = self.callee(pkg, env, call[1])
            args = [self.ev(pkg, env, a) for a in call[2]]
            env["$defers"].append(lambda: self.invoke(fn, args))
        elif k == "break":
            raise _Break()
        elif k == "continue":
            raise _Continue()
        else:
            raise GoUnsupported("statement %s" % k)

    def _cut_loop(self, pkg, e, st, cut):
        E = EN.cur()
        tag = "%s#%d" % (self.fstack[-1][0], self.fstack[-1][1])
        for nm, g in cut.inv(e):
            self.ob("inv", "%s/inv-entry#%s" % (tag, nm), g)
        for n in cut.havoc:
            old = e[n][0]
            e[n][0] = GI(old.tn, old.bits, old.signed, E.fresh("%s.%s" % (tag, n), z3.BitVecSort(old.bits)))
        if cut.pre_assume:
            cut.pre_assume(e)
        for nm, g in cut.inv(e):
            E.assume(g)
        v0 = cut.variant(e)
        if st[2] is not None and not self.truth(self.ev(pkg, e, st[2])):
            return                                   # exit path: continue after the loop with inv and not cond
        try:
            self.block(pkg, e, st[4])
        except (_Break, _Continue):
            raise GoUnsupported("break / continue inside a cut loop")
        if st[3] is not None:
            self.stmt(pkg, e, st[3])
        if cut.at_back_edge:
            cut.at_back_edge(e)
        for nm, g in cut.inv(e):
            self.ob("inv", "%s/inv-preserve#%s" % (tag, nm), g)
        v1 = cut.variant(e)
        self.ob("variant", "%s/variant" % tag, z3.And(v1 < v0, v0 >= 0))
        raise EN.StopPath()

    def default_type(self, v):
        """an untyped integer constant assigned with := becomes int"""
        if isinstance(v, int) and not isinstance(v, bool):
            return GI("int", 64, True, v)
        return v

    def assign(self, pkg, env, st):
        _, op, lhs, rhs = st
        if op == ":=":
            vals = []
            for r in rhs:
                v = self.ev(pkg, env, r, multi=True)
                vals.extend(v if isinstance(v, list) else [v])
            if len(vals) != len(lhs):
                raise GoUnsupported("assignment count mismatch")
            for l, v in zip(lhs, vals):
                if l[0] != "id":
                    raise GoUnsupported(":= to non-identifier")
                if l[1] != "_":
                    env[l[1]] = [self.default_type(gcopy(v))]
            return
        if op == "=":
            vals = []
            for r in rhs:
                v = self.ev(pkg, env, r, multi=True)
                vals.extend(v if isinstance(v, list) else [v])
            refs = [self.lref(pkg, env, l) if not (l[0] == "id" and l[1] == "_") else None for l in lhs]
            for ref, v in zip(refs, vals):
                if ref is not None:
                    cur = ref[0]()
                    ref[1](self.conform(cur, gcopy(v)))
            return
        ref = self.lref(pkg, env, lhs[0])
        cur = ref[0]()
        v = self.ev(pkg, env, rhs[0])
        ref[1](self.binop(op[:-1], cur, v))

    def conform(self, cur, v):
        if isinstance(v, int) and not isinstance(v, bool) and isinstance(cur, GI):
            return GI(cur.tn, cur.bits, cur.signed, v)
        if isinstance(cur, GB) and not isinstance(v, GB):
            return GB(cur.tn, v)
        return v

    def lref(self, pkg, env, e):
        k = e[0]
        if k == "paren":
            return self.lref(pkg, env, e[1])
        if k == "id":
            if e[1] not in env:
                raise GoUnsupported("assignment to unknown variable %s" % e[1])
            cell = env[e[1]]
            return (lambda: cell[0], lambda v: cell.__setitem__(0, v))
        if k == "sel":
            base = self.ev(pkg, env, e[1])
            if isinstance(base, GPtr):
                base = base.t
            if base is None:
                self.panic("nil pointer dereference (.%s)" % e[2])
            if not isinstance(base, GStruct) or e[2] not in base.f:
                raise GoUnsupported("field %s of %r" % (e[2], base))
            return (lambda: base.f[e[2]], lambda v: base.f.__setitem__(e[2], v))
        if k == "index":
            base = self.ev(pkg, env, e[1])
            idx = self.ev(pkg, env, e[2])
            i = idx.v if isinstance(idx, GI) else idx
            if isinstance(base, GSymBytes):
                it = idx.term() if isinstance(idx, GI) else z3.BitVecVal(int(i), 64)
                if it.size() != 64:
                    raise GoUnsupported("index type of a symbolic byte slice")
                self.ob("index-in-range", "panic: index out of range (symbolic byte slice)", z3.And(it >= 0, it < base.n))
                return (lambda: GI("uint8", 8, False, z3.Select(base.arr, it)),
                        lambda v: setattr(base, "arr", z3.Store(base.arr, it, v.term() if isinstance(v, GI) else z3.BitVecVal(int(v), 8))))
            if z3.is_expr(i):
                raise GoUnsupported("symbolic index")
            if isinstance(base, GArray):
                items, off, n = base.items, 0, len(base.items)
            elif isinstance(base, GSlice):
                items, off, n = base.items, base.lo, len(base)
            else:
                raise GoUnsupported("index of %r" % (base,))
            if not (0 <= i < n):
                self.panic("index out of range [%d] with length %d" % (i, n))
            return (lambda: items[off + i], lambda v: items.__setitem__(off + i, v))
        if k == "un" and e[1] == "*":
            p = self.ev(pkg, env, e[2])
            if not isinstance(p, GPtr):
                self.panic("nil pointer dereference")
            raise GoUnsupported("assignment through *p")
        raise GoUnsupported("lvalue %s" % k)

    # ---- expressions
    def callee(self, pkg, env, f):
        """returns ('func', pkg, decl) | ('method', recv, name) | ('conv', pkg, typeexpr) | ('builtin', name)"""
        if f[0] == "paren":
            return self.callee(pkg, env, f[1])
        if f[0] == "id":
            n = f[1]
            if n in env:
                v = env[n][0]
                if isinstance(v, GBound):
                    return ("bound", v)
                raise GoUnsupported("call of variable %s" % n)
            if n in ("len", "make", "append", "cap", "panic", "new", "copy"):
                return ("builtin", n)
            if n in BUILTIN_INT or n in ("bool", "string") or n in pkg.types:
                return ("conv", pkg, ("name", n))
            if n in pkg.funcs:
                return ("func", pkg, pkg.funcs[n])
            raise GoUnsupported("call of unknown function %s" % n)
        if f[0] == "sel":
            if f[1][0] == "id" and f[1][1] not in env and f[1][1] in pkg.imports:
                q = self.p.pkg_of_import(pkg, f[1][1])
                if q is None:
                    raise GoUnsupported("call into unmodelled package %s" % f[1][1])
                if f[2] in q.types:
                    return ("conv", q, ("name", f[2]))
                if f[2] in q.funcs:
                    return ("func", q, q.funcs[f[2]])
                raise GoUnsupported("unknown %s.%s" % (f[1][1], f[2]))
            recv = self.ev(pkg, env, f[1])
            return ("method", recv, f[2])
        if f[0] == "type":
            return ("conv", pkg, f[1])
        raise GoUnsupported("callee %s" % f[0])

    def invoke(self, fn, args):
        if fn[0] == "func" and self.helper_contracts and fn[2][2].lower() in self.helper_contracts:
            return self.helper_contracts[fn[2][2].lower()](self, args)
        if fn[0] == "func":
            return self.call_func(fn[1], fn[2], args)
        if fn[0] == "method":
            recv, name = fn[1], fn[2]
            if isinstance(recv, GStub):
                if name not in recv.methods:
                    raise GoUnsupported("abstract %s has no contract for method %s" % (recv.tn, name))
                return recv.methods[name](self, args)
            tn0 = recv.t.tn if isinstance(recv, GPtr) and hasattr(recv.t, "tn") else getattr(recv, "tn", None)
            if tn0 and (tn0.split(".")[-1], name) in self.method_contracts:
                return self.method_contracts[(tn0.split(".")[-1], name)](self, recv, args)
            if recv is None:
                self.panic("nil pointer dereference (method %s on nil)" % name)
            mpkg, decl, r, rname = self.method(recv, name)
            return self.call_func(mpkg, decl, args, recv=r, recv_name=rname)
        raise GoUnsupported("invoke %r" % (fn[0],))

    def ev(self, pkg, env, e, multi=False):
        self.steps += 1
        if self.steps > self.max_steps:
            raise GoUnsupported("step budget exceeded")
        k = e[0]
        if k == "int":
            return e[1]
        if k == "str":
            return e[1][1:-1]
        if k == "paren":
            return self.ev(pkg, env, e[1])
        if k == "id":
            n = e[1]
            if n in env:
                return env[n][0]
            if n == "nil":
                return None
            if n == "true":
                return True
            if n == "false":
                return False
            if n in pkg.consts:
                ty, ce = pkg.consts[n]
                v = self.ev(pkg, {}, ce)
                return self.assignable(pkg, ty, v) if ty is not None else v
            if n in pkg.vars:
                ty, ve = pkg.vars[n]
                return self.ev(pkg, {}, ve) if ve is not None else self.zero(pkg, ty)
            raise GoUnsupported("unknown identifier %s" % n)
        if k == "sel":
            if e[1][0] == "id" and e[1][1] not in env and e[1][1] in pkg.imports:
                q = self.p.pkg_of_import(pkg, e[1][1])
                if q is None:
                    raise GoUnsupported("reference into unmodelled package %s" % e[1][1])
                return self.ev(q, {}, ("id", e[2]))
            base = self.ev(pkg, env, e[1])
            b = base.t if isinstance(base, GPtr) else base
            if b is None:
                self.panic("nil pointer dereference (.%s)" % e[2])
            if isinstance(b, GStruct) and e[2] in b.f:
                return b.f[e[2]]
            raise GoUnsupported("selector .%s on %r" % (e[2], base))
        if k == "index":
            idx = self.ev(pkg, env, e[2])
            base0 = self.ev(pkg, env, e[1])
            if isinstance(base0, GSymBytes):
                return self.lref(pkg, env, e)[0]()
            if isinstance(idx, GI) and idx.sym():
                # read with a symbolic index (e.g. a lookup table): in-range is an obligation, the value an if-chain
                base = base0
                if isinstance(base, GArray):
                    items = list(base.items)
                elif isinstance(base, GSlice):
                    items = [base.items[base.lo + i] for i in range(len(base))]
                else:
                    raise GoUnsupported("symbolic index into %r" % (base,))
                if not items or not all(isinstance(x, GI) for x in items):
                    raise GoUnsupported("symbolic index into non-integer elements")
                it = idx.term()
                n = z3.BitVecVal(len(items), idx.bits)
                self.ob("index-in-range", "panic: index out of range (symbolic index, length %d)" % len(items),
                        z3.And(it >= 0, it < n) if idx.signed else z3.ULT(it, n))
                r = items[-1].term()
                for j in range(len(items) - 2, -1, -1):
                    r = z3.If(it == j, items[j].term(), r)
                x0 = items[0]
                return GI(x0.tn, x0.bits, x0.signed, r)
            return self.lref(pkg, env, e)[0]()
        if k == "slice":
            base = self.ev(pkg, env, e[1])
            lo = self.ev(pkg, env, e[2]) if e[2] is not None else 0
            hi = self.ev(pkg, env, e[3]) if e[3] is not None else None
            lo = lo.v if isinstance(lo, GI) else lo
            hi = hi.v if isinstance(hi, GI) else hi
            if isinstance(base, GSlice):
                hi = len(base) if hi is None else hi
                if not (0 <= lo <= hi <= len(base)):
                    self.panic("slice bounds out of range [%s:%s]" % (lo, hi))
                return GSlice(base.items, base.lo + lo, base.lo + hi)
            raise GoUnsupported("slice of %r" % (base,))
        if k == "un":
            op = e[1]
            if op == "&":
                x = e[2]
                if x[0] == "paren":
                    x = x[1]
                v = self.ev(pkg, env, x)
                if isinstance(v, (GStruct, GArray)):
                    return GPtr(v)
                raise GoUnsupported("address of non-struct")
            v = self.ev(pkg, env, e[2])
            if op == "*":
                if not isinstance(v, GPtr):
                    self.panic("nil pointer dereference")
                return v.t
            if op == "!":
                v = unb(v)
                if isinstance(v, bool):
                    return not v
                return z3.Not(v)
            if op == "-":
                return self.binop("-", 0 if not isinstance(v, GI) else GI(v.tn, v.bits, v.signed, 0), v)
            if op == "^":
                if isinstance(v, GI):
                    return GI(v.tn, v.bits, v.signed, ~v.term() if v.sym() else ~v.v)
                return ~v
            if op == "+":
                return v
            raise GoUnsupported("unary " + op)
        if k == "bin":
            op = e[1]
            if op in ("&&", "||"):
                a = unb(self.ev(pkg, env, e[2]))
                if isinstance(a, bool):
                    if (op == "&&" and not a) or (op == "||" and a):
                        return a
                    return unb(self.ev(pkg, env, e[3]))
                b = unb(self.ev(pkg, env, e[3]))
                bt = z3.BoolVal(b) if isinstance(b, bool) else b
                return z3.simplify(z3.And(a, bt) if op == "&&" else z3.Or(a, bt))
            return self.binop(op, self.ev(pkg, env, e[2]), self.ev(pkg, env, e[3]))
        if k == "call":
            fn = self.callee(pkg, env, e[1])
            if fn[0] == "conv":
                args = [self.ev(pkg, env, a) for a in e[2]]
                return self.convert(fn[1], fn[2], args[0])
            if fn[0] == "builtin":
                return self.builtin(pkg, env, fn[1], e[2])
            args = [self.ev(pkg, env, a) for a in e[2]]
            r = self.invoke(fn, args)
            if multi:
                return r if len(r) != 1 else r[0]
            if len(r) != 1:
                raise GoUnsupported("multi-value call in single-value context")
            return r[0]
        if k == "complit":
            return self.complit(pkg, env, e)
        if k == "type":
            raise GoUnsupported("type used as value")
        raise GoUnsupported("expression %s" % k)

    def builtin(self, pkg, env, name, argexprs):
        if name == "make":
            t = argexprs[0]
            if t[0] != "type" or t[1][0] != "slice":
                raise GoUnsupported("make of non-slice")
            n = self.ev(pkg, env, argexprs[1])
            n = n.v if isinstance(n, GI) else n
            if z3.is_expr(n) or n < 0:
                raise GoUnsupported("make with symbolic / negative length")
            return GSlice([self.zero(pkg, t[1][1]) for _ in range(n)])
        args = [self.ev(pkg, env, a) for a in argexprs]
        if name == "len":
            x = args[0]
            if isinstance(x, GSlice):
                return GI("int", 64, True, len(x))
            if isinstance(x, GSymBytes):
                return GI("int", 64, True, x.n)
            if isinstance(x, GArray):
                return GI("int", 64, True, len(x.items))
            if isinstance(x, str):
                return GI("int", 64, True, len(x))
            if x is None:
                return GI("int", 64, True, 0)
            raise GoUnsupported("len of %r" % (x,))
        if name == "append":
            s = args[0]
            items = [] if s is None else [s.items[s.lo + i] for i in range(len(s))]
            for a in args[1:]:
                if items and isinstance(items[0], GI):
                    a = self.conform(items[0], a)
                items.append(self.default_type(gcopy(a)))
            return GSlice(items)
        raise GoUnsupported("builtin %s" % name)

    def complit(self, pkg, env, e):
        _, tx, els = e
        if tx[0] == "id":
            t = ("name", tx[1])
        elif tx[0] == "sel":
            t = ("name", "%s.%s" % (tx[1][1], tx[2]))
        elif tx[0] == "type":
            t = tx[1]
        else:
            raise GoUnsupported("composite literal type")
        dp, u, qn = self.resolve(pkg, t)
        if u[0] == "struct":
            v = self.zero(pkg, t)
            names = [nm for ns, _, _ in u[1] for nm in ns]
            ftypes = {nm: fty for ns, fty, _ in u[1] for nm in ns}
            for i, el in enumerate(els):
                if el[0] == "kv":
                    fname = el[1][1]
                    val = self.ev(pkg, env, el[2])
                else:
                    if i >= len(names):
                        raise GoUnsupported("too many values in struct literal")
                    fname, val = names[i], self.ev(pkg, env, el)
                v.f[fname] = self.assignable(dp, ftypes[fname], gcopy(val))
            return v
        if u[0] == "slice":
            items = []
            for el in els:
                x = self.ev(pkg, env, el)
                items.append(self.assignable(dp, u[1], gcopy(x)))
            return GSlice(items)
        if u[0] == "array":
            v = self.zero(pkg, t)
            for i, el in enumerate(els):
                v.items[i] = self.assignable(dp, u[2], gcopy(self.ev(pkg, env, el)))
            return v
        raise GoUnsupported("composite literal of %r" % (u[0],))

    def convert(self, pkg, t, v):
        try:
            info = self.int_info(pkg, t)
        except GoUnsupported:
            info = None
        if info:
            tn, bits, signed = info
            if isinstance(v, GI):
                if v.sym():
                    x = v.v
                    if bits < v.bits:
                        x = z3.Extract(bits - 1, 0, x)
                    elif bits > v.bits:
                        x = z3.SignExt(bits - v.bits, x) if v.signed else z3.ZeroExt(bits - v.bits, x)
                    return GI(tn, bits, signed, x)
                return GI(tn, bits, signed, v.v)
            if isinstance(v, int) and not isinstance(v, bool):
                return GI(tn, bits, signed, v)
            raise GoUnsupported("conversion of %r to %s" % (v, tn))
        dp, u, qn = self.resolve(pkg, t)
        if u == ("name", "bool"):
            return GB(qn, unb(v)) if qn else unb(v)
        if u == ("name", "string"):
            return v
        if isinstance(v, (GStruct, GArray)) and qn:
            w = gcopy(v)
            w.tn = qn
            return w
        return v

    def binop(self, op, a, b):
        a, b = unb(a), unb(b)
        # untyped constants adapt
        if isinstance(a, GI) and isinstance(b, int) and not isinstance(b, bool):
            if op in ("<<", ">>"):
                return self.shift(op, a, b)
            b = GI(a.tn, a.bits, a.signed, b)
        elif isinstance(b, GI) and isinstance(a, int) and not isinstance(a, bool):
            if op in ("<<", ">>"):
                n = b.v
                if z3.is_expr(n):
                    # untyped constant shifted by a variable count: the constant takes type int (Go spec, non-constant shift)
                    return self.shift(op, GI("int", 64, True, a), b)
                if n < 0:
                    self.panic("negative shift amount")
                return (a << n) if op == "<<" else (a >> n)
            a = GI(b.tn, b.bits, b.signed, a)
        if isinstance(a, GI) and isinstance(b, GI):
            if op in ("<<", ">>"):
                return self.shift(op, a, b)
            if a.bits != b.bits or a.signed != b.signed:
                raise GoUnsupported("mismatched integer types %s and %s" % (a.tn, b.tn))
            tn = a.tn if a.tn == b.tn else (a.tn if "." in a.tn else b.tn)
            if not (a.sym() or b.sym()):
                x, y = a.v, b.v
                if op in ("/", "%"):
                    if y == 0:
                        self.panic("integer divide by zero")
                    q = abs(x) // abs(y)
                    if (x < 0) != (y < 0):
                        q = -q
                    r = q if op == "/" else x - q * y
                elif op in ("==", "!=", "<", "<=", ">", ">="):
                    return {"==": x == y, "!=": x != y, "<": x < y, "<=": x <= y, ">": x > y, ">=": x >= y}[op]
                else:
                    r = {"+": x + y, "-": x - y, "*": x * y, "&": x & y, "|": x | y, "^": x ^ y, "&^": x & ~y}[op]
                return GI(tn, a.bits, a.signed, r)
            x, y = a.term(), b.term()
            am = getattr(self, "abs_muldiv", None)
            if am is not None and op in ("*", "/") and a.sym() and b.sym() and a.signed and a.bits == 64:
                # products / quotients of two symbolic operands as uninterpreted ghost functions (sound for validity); the contract
                # supplies proved instances of the arithmetic laws it needs
                if op == "*":
                    EN.cur().assume(am["mul"](x, y) == am["mul"](y, x))
                    return GI(tn, a.bits, a.signed, am["mul"](x, y))
                self.ob("no-exception", "panic: integer divide by zero", y != 0)
                return GI(tn, a.bits, a.signed, am["div"](x, y))
            if op in ("==", "!="):
                return z3.simplify(x == y if op == "==" else x != y)
            if op in ("<", "<=", ">", ">="):
                if a.signed:
                    c = {"<": x < y, "<=": x <= y, ">": x > y, ">=": x >= y}[op]
                else:
                    c = {"<": z3.ULT(x, y), "<=": z3.ULE(x, y), ">": z3.UGT(x, y), ">=": z3.UGE(x, y)}[op]
                return z3.simplify(c)
            if op in ("/", "%"):
                self.ob("no-exception", "panic: integer divide by zero", y != 0)
                r = ((x / y) if op == "/" else z3.SRem(x, y)) if a.signed else (z3.UDiv(x, y) if op == "/" else z3.URem(x, y))
            else:
                r = {"+": x + y, "-": x - y, "*": x * y, "&": x & y, "|": x | y, "^": x ^ y, "&^": x & ~y}[op]
            return GI(tn, a.bits, a.signed, r)
        if isinstance(a, int) and isinstance(b, int) and not isinstance(a, bool) and not isinstance(b, bool):
            if op in ("/", "%"):
                if b == 0:
                    self.panic("integer divide by zero")
                q = abs(a) // abs(b)
                if (a < 0) != (b < 0):
                    q = -q
                return q if op == "/" else a - q * b
            if op in ("==", "!=", "<", "<=", ">", ">="):
                return {"==": a == b, "!=": a != b, "<": a < b, "<=": a <= b, ">": a > b, ">=": a >= b}[op]
            return {"+": a + b, "-": a - b, "*": a * b, "&": a & b, "|": a | b, "^": a ^ b, "&^": a & ~b,
                    "<<": a << b if op == "<<" else 0, ">>": a >> b if op == ">>" else 0}[op]
        if op in ("==", "!="):
            if a is None or b is None:
                same = a is b
            elif isinstance(a, GPtr) and isinstance(b, GPtr):
                same = a.t is b.t
            elif isinstance(a, (bool, str)) and isinstance(b, (bool, str)):
                same = a == b
            elif (z3.is_expr(a) and z3.is_bool(a)) or (z3.is_expr(b) and z3.is_bool(b)):
                at = z3.BoolVal(a) if isinstance(a, bool) else a
                bt = z3.BoolVal(b) if isinstance(b, bool) else b
                r = at == bt
                return z3.simplify(r if op == "==" else z3.Not(r))
            else:
                raise GoUnsupported("comparison of %r and %r" % (a, b))
            return same if op == "==" else not same
        if op == "+" and isinstance(a, str) and isinstance(b, str):
            return a + b
        if isinstance(a, (GArray, GStruct, GSlice)) or isinstance(b, (GArray, GStruct, GSlice)):
            kind = lambda x: type(x).__name__[1:].lower() if isinstance(x, (GArray, GStruct, GSlice)) else "scalar"
            raise GoTypeError("invalid operation: operator %s on %s and %s" % (op, kind(a), kind(b)))
        raise GoUnsupported("operator %s on %r, %r" % (op, a, b))

    def shift(self, op, a: GI, n):
        cnt = n
        if isinstance(n, GI):
            n = n.v
        if z3.is_expr(n):
            # symbolic count (generic helper proofs): negative count panics, count >= width gives 0 / the sign
            cs = cnt.signed if isinstance(cnt, GI) else True
            cb = cnt.bits
            if cs:
                self.ob("no-exception", "panic: negative shift amount", n >= 0)
            x = a.term()
            if cb < a.bits:
                c2 = z3.ZeroExt(a.bits - cb, n)
                big = z3.BoolVal(False)
            elif cb > a.bits:
                c2 = z3.Extract(a.bits - 1, 0, n)
                big = z3.UGE(n, z3.BitVecVal(a.bits, cb))
            else:
                c2, big = n, z3.UGE(n, z3.BitVecVal(a.bits, cb))
            big = z3.Or(big, z3.UGE(c2, z3.BitVecVal(a.bits, a.bits)))
            if op == "<<":
                r = z3.If(big, z3.BitVecVal(0, a.bits), x << c2)
            elif a.signed:
                r = z3.If(big, x >> z3.BitVecVal(a.bits - 1, a.bits), x >> c2)
            else:
                r = z3.If(big, z3.BitVecVal(0, a.bits), z3.LShR(x, c2))
            return GI(a.tn, a.bits, a.signed, r)
        if n < 0:
            self.panic("negative shift amount")
        if n >= a.bits:
            if op == "<<" or not a.signed:
                return GI(a.tn, a.bits, a.signed, 0)
            n = a.bits - 1
        if not a.sym():
            return GI(a.tn, a.bits, a.signed, (a.v << n) if op == "<<" else (a.v >> n))
        x = a.v
        r = (x << n) if op == "<<" else ((x >> n) if a.signed else z3.LShR(x, n))
        return GI(a.tn, a.bits, a.signed, r)
