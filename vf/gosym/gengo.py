"""Per-program proofs for Go: generated code + the REAL runtime lib/go/bitproto.go executed by the gosym interpreter on symbolic
field values; structure of the generated file compared with the schema model and with the generated Python module (C19)."""
from __future__ import annotations

import os
import re
from typing import Dict, List, Optional

import z3

from . import interp as GI_
from .interp import GI, GStruct, GPtr, GArray, GSlice, Program, Interp, GoUnsupported, GoPanic, GoTypeError
from ..pysym import engine as EN
from ..pysym import loader
from ..spec import layout as L
from ..spec.bits import W
from ..templates import build

RUNTIME_PATH = "github.com/hit9/bitproto/lib/go"


def build_program(schema: L.Schema, optimize: bool):
    outs = build.compile_schema(schema, "go", optimize=optimize)
    prog = Program()
    with open(os.path.join(loader.REPO, "lib/go/bitproto.go")) as f:
        prog.add(f.read(), RUNTIME_PATH)
    pkgs = {}
    for p in build._all_protos(schema):
        fn = p.fname().replace(".bitproto", "_bp.go")
        pkgs[p.name] = prog.add(outs[fn], import_path=fn[:-3])
    return prog, pkgs[schema.name], outs


def go_struct_name(msg: L.Message) -> str:
    return "".join(L._path(msg))


def _collector(E: EN.Engine):
    def cb(kind, label, goal):
        E.oblige("%s:%s" % (kind, label), z3.BoolVal(goal) if isinstance(goal, bool) else goal, kind=kind)
    return cb


def _field_map(it: Interp, pkg, tname: str) -> Dict[str, str]:
    """schema field name -> Go field name, through the json struct tags"""
    dp, u, qn = it.resolve(pkg, ("name", tname))
    if u[0] != "struct":
        raise GoUnsupported("%s is not a struct" % tname)
    out = {}
    for names, fty, tag in u[1]:
        m = re.search(r'json:"([^",]+)', tag or "")
        if m:
            out[m.group(1)] = names[0]
    return out


def _fill(it: Interp, pkg, obj, t: L.Ty, v, path=""):
    """returns the Go value holding the value tree v (obj = current zero value of the right Go type)"""
    r = L.resolve(t)
    if isinstance(r, L.Message):
        if not isinstance(obj, GStruct):
            raise GoUnsupported("Go value of message %s is %r" % (r.name, obj))
        dpn, tn = obj.tn.split(".", 1)
        fm = _field_map(it, it.p.pk[dpn], tn)
        for f in r.sorted_fields():
            if f.name not in fm:
                raise GoUnsupported("struct %s has no field tagged %s" % (obj.tn, f.name))
            obj.f[fm[f.name]] = _fill(it, pkg, obj.f[fm[f.name]], f.type, v[f.name], path + "." + f.name)
        return obj
    if isinstance(r, L.Array):
        if not isinstance(obj, GArray) or len(obj.items) != r.cap:
            raise GoUnsupported("Go value of array at %s is %r" % (path, obj))
        for k in range(r.cap):
            obj.items[k] = _fill(it, pkg, obj.items[k], r.elem, v[k], "%s[%d]" % (path, k))
        return obj
    if isinstance(r, L.Bool):
        val = z3.simplify(v != 0) if z3.is_expr(v) else bool(v)
        if isinstance(obj, GI_.GB):
            return GI_.GB(obj.tn, val)
        if not isinstance(obj, bool):
            raise GoUnsupported("Go value of bool at %s is %r" % (path, obj))
        return val
    if not isinstance(obj, GI):
        raise GoUnsupported("Go value of leaf at %s is %r" % (path, obj))
    return GI(obj.tn, obj.bits, obj.signed, z3.Extract(obj.bits - 1, 0, v) if z3.is_expr(v) else v)


def _read(it: Interp, obj, t: L.Ty, out, path=""):
    r = L.resolve(t)
    if isinstance(r, L.Message):
        dpn, tn = obj.tn.split(".", 1)
        fm = _field_map(it, it.p.pk[dpn], tn)
        for f in r.sorted_fields():
            _read(it, obj.f[fm[f.name]], f.type, out, path + "." + f.name)
        return
    if isinstance(r, L.Array):
        for k in range(r.cap):
            _read(it, obj.items[k], r.elem, out, "%s[%d]" % (path, k))
        return
    out.append((path, obj, r))


def go_value(obj, r: L.Ty):
    """the Go VALUE of a leaf as BitVec(W)"""
    if isinstance(obj, GI_.GB):
        obj = obj.v
    if isinstance(obj, bool):
        return z3.BitVecVal(1 if obj else 0, W)
    if z3.is_expr(obj) and z3.is_bool(obj):
        return z3.If(obj, z3.BitVecVal(1, W), z3.BitVecVal(0, W))
    t = obj.term()
    return z3.SignExt(W - obj.bits, t) if obj.signed else z3.ZeroExt(W - obj.bits, t)


def _vname(E, msg) -> str:
    """name prefix of the symbolic value of ONE run: unique per message and per run, so that the preconditions assumed for one run
    (e.g. in-range values when decoding) never constrain another run of the same proof path whose fields happen to have the same
    names (they did until wave 4 of the seeded changes exposed it: S1's encode was only proved for in-range x after S0's decode)"""
    E.run_n = getattr(E, "run_n", 0) + 1              # reset by Engine.explore at the start of every path
    return "v%d<%s>" % (E.run_n, "".join(L._path(msg)))


def _mk(E):
    def mk(name):
        if E.concrete is not None:
            return E.concrete.get(name, z3.BitVecVal(0, W))
        return z3.BitVec(name, W)
    return mk


def _bool2byte(it, args):
    b = GI_.unb(args[0])
    if isinstance(b, bool):
        return [GI("uint8", 8, False, 1 if b else 0)]
    return [GI("uint8", 8, False, z3.If(b, z3.BitVecVal(1, 8), z3.BitVecVal(0, 8)))]


def _byte2bool(it, args):
    x = args[0]
    if not x.sym():
        return [x.v != 0]
    return [z3.simplify(x.v != 0)]


HELPERS = {"bool2byte": _bool2byte, "byte2bool": _byte2bool}


def run_helpers(E: EN.Engine, prog: Program, label="helpers"):
    """the two bool helpers (runtime Bool2byte / Byte2bool and the per-file bool2byte / byte2bool of -O output) are used through
    their contracts in the per-message runs; here the REAL bodies are proved against those contracts for every input"""
    it = Interp(prog, oblige=_collector(E))
    for pkg in prog.pk.values():
        for name, decl in pkg.funcs.items():
            if name.lower() == "bool2byte":
                b = z3.Bool("b")
                r = it.call_func(pkg, decl, [b])[0]
                E.oblige("%s/%s.%s" % (label, pkg.name, name), r.term() == z3.If(b, z3.BitVecVal(1, 8), z3.BitVecVal(0, 8)))
            elif name.lower() == "byte2bool":
                x = z3.BitVec("x", 8)
                r = GI_.unb(it.call_func(pkg, decl, [GI("uint8", 8, False, x)])[0])
                rt = z3.BoolVal(r) if isinstance(r, bool) else r
                E.oblige("%s/%s.%s" % (label, pkg.name, name), rt == (x != 0))


def run_encode(E: EN.Engine, prog: Program, pkg, msg: L.Message, label="encode"):
    it = Interp(prog, oblige=_collector(E))
    it.helper_contracts = HELPERS
    tn = go_struct_name(msg)
    if tn not in pkg.types:
        raise GoUnsupported("generated file has no type %s" % tn)
    leaves: list = []
    v = L.fresh_value(msg, _vname(E, msg), leaves, _mk(E))
    for name, term, r in leaves:
        if isinstance(r, L.Bool):
            E.assume(L.in_range(term, r))
    E.cover(label + "/requires")
    m = _fill(it, pkg, it.zero(pkg, ("name", tn)), msg, v)
    try:
        out = it.invoke(("method", GPtr(m), "Encode"), [])[0]
    except GoTypeError as e:
        E.oblige("%s/well-typed: %s" % (label, e), z3.BoolVal(False))
        return
    except GoPanic:
        return
    n = L.nbytes(msg)
    E.oblige(label + "/length", z3.BoolVal(isinstance(out, GSlice) and len(out) == n))
    if not isinstance(out, GSlice):
        return
    exp = L.bytes_of(L.enc(msg, v), n)
    for k in range(min(n, len(out))):
        b = out.items[out.lo + k]
        E.oblige("%s/byte[%d]" % (label, k), b.term() == exp[k])


def run_decode(E: EN.Engine, prog: Program, pkg, msg: L.Message, label="decode", sender=None, project=None):
    it = Interp(prog, oblige=_collector(E))
    it.helper_contracts = HELPERS
    tn = go_struct_name(msg)
    if tn not in pkg.types:
        raise GoUnsupported("generated file has no type %s" % tn)
    src = sender or msg
    leaves: list = []
    v = L.fresh_value(src, _vname(E, src), leaves, _mk(E))
    for name, term, r in leaves:
        E.assume(L.in_range(term, r))
    E.cover(label + "/requires")
    n = L.nbytes(src)
    bs = L.bytes_of(L.enc(src, v), n)
    s = GSlice([GI("uint8", 8, False, b) for b in bs])
    m = it.zero(pkg, ("name", tn))
    try:
        it.invoke(("method", GPtr(m), "Decode"), [s])
    except GoTypeError as e:
        E.oblige("%s/well-typed: %s" % (label, e), z3.BoolVal(False))
        return
    except GoPanic:
        return
    out: list = []
    _read(it, m, msg, out)
    want = project(v) if project else v
    for (path, obj, r), (_, w, _) in zip(out, L.leaves_of(msg, want)):
        E.oblige("%s/field%s" % (label, path), go_value(obj, r) == w)


# ----------------------------------------------------------------------------- C19: structure
def go_type_of(t: L.Ty) -> str:
    """the Go type the property prescribes for a field type: smallest covering integer, bool, byte, [n]T; a named definition
    (enum, alias, message) must be a named Go type with the right underlying type - its NAME is not compared here (naming: C15)"""
    if isinstance(t, L.Bool):
        return "bool"
    if isinstance(t, L.Byte):
        return "byte"
    if isinstance(t, L.Uint):
        return "uint%d" % L.storage_bits(t)
    if isinstance(t, L.Int):
        return "int%d" % L.storage_bits(t)
    if isinstance(t, L.Array):
        return "[%d]%s" % (t.cap, go_type_of(t.elem))
    if isinstance(t, L.Enum):
        return "named(uint%d)" % L.storage_bits(t)
    if isinstance(t, L.Alias):
        return "named(%s)" % go_type_of(t.target)
    if isinstance(t, L.Message):
        return "named(struct)"
    raise TypeError(t)


def _type_text(it, pkg, t) -> str:
    if t[0] == "name":
        n = t[1]
        if n in GI_.BUILTIN_INT or n in ("bool", "string"):
            return n
        dp = pkg
        if "." in n:
            a, n = n.split(".", 1)
            dp = it.p.pkg_of_import(pkg, a)
            if dp is None:
                return "?unknown-package"
        if n not in dp.types:
            return "?undeclared(%s)" % n
        u = dp.types[n]
        return "named(%s)" % ("struct" if u[0] == "struct" else _type_text(it, dp, u))
    if t[0] == "array":
        return "[%d]%s" % (t[1][1] if t[1][0] == "int" else -1, _type_text(it, pkg, t[2]))
    if t[0] == "ptr":
        return "*" + _type_text(it, pkg, t[1])
    if t[0] == "slice":
        return "[]" + _type_text(it, pkg, t[1])
    return t[0]


def processor_tree(v):
    """canonical tuple of a Go processor value (runtime structs)"""
    if isinstance(v, GPtr):
        v = v.t
    n = v.tn.split(".", 1)[1]
    f = v.f

    def i(x):
        return x.v if isinstance(x, GI) else x
    if n == "Bool":
        return ("Bool",)
    if n == "Byte":
        return ("Byte",)
    if n == "Uint":
        return ("Uint", i(f["nbits"]))
    if n == "Int":
        return ("Int", i(f["nbits"]))
    if n == "EnumProcessor":
        return ("EnumProcessor", processor_tree(f["ut"]))
    if n == "AliasProcessor":
        return ("AliasProcessor", processor_tree(f["to"]))
    if n == "Array":
        return ("Array", bool(f["extensible"]), i(f["capacity"]), processor_tree(f["elementProcessor"]))
    if n == "MessageFieldProcessor":
        return ("MessageFieldProcessor", i(f["fieldNumber"]), processor_tree(f["typeProcessor"]))
    if n == "MessageProcessor":
        fd = f["fieldDescriptors"]
        return ("MessageProcessor", bool(f["extensible"]), i(f["nbits"]),
                tuple(processor_tree(fd.items[fd.lo + k]) for k in range(len(fd))))
    raise GoUnsupported("unknown processor %s" % n)


def py_processor_tree(p):
    n = type(p).__name__
    if n in ("Bool", "Byte"):
        return (n,)
    if n in ("Uint", "Int"):
        return (n, p.nbits)
    if n == "EnumProcessor":
        return (n, py_processor_tree(p.ut))
    if n == "AliasProcessor":
        return (n, py_processor_tree(p.to))
    if n == "Array":
        return (n, bool(p.extensible), p.capacity, py_processor_tree(p.element_processor))
    if n == "MessageFieldProcessor":
        return (n, p.field_number, py_processor_tree(p.type_processor))
    if n == "MessageProcessor":
        return (n, bool(p.extensible), p.nbits, tuple(py_processor_tree(x) for x in p.field_processors))
    raise TypeError(n)


def model_processor_tree(t: L.Ty):
    """the processor tree the schema model prescribes (same shape as the Python runtime's)"""
    if isinstance(t, L.Bool):
        return ("Bool",)
    if isinstance(t, L.Byte):
        return ("Byte",)
    if isinstance(t, L.Uint):
        return ("Uint", t.n)
    if isinstance(t, L.Int):
        return ("Int", t.n)
    if isinstance(t, L.Enum):
        return ("EnumProcessor", ("Uint", t.n))
    if isinstance(t, L.Alias):
        return ("AliasProcessor", model_processor_tree(t.target))
    if isinstance(t, L.Array):
        return ("Array", t.ext, t.cap, model_processor_tree(t.elem))
    if isinstance(t, L.Message):
        return ("MessageProcessor", t.ext, L.wire(t),
                tuple(("MessageFieldProcessor", f.number, model_processor_tree(f.type)) for f in t.sorted_fields()))
    raise TypeError(t)


def run_structure(E: EN.Engine, prog: Program, pkg, msg: L.Message, py_cls=None, label="structure"):
    """struct fields in field-number order with the smallest covering Go types and the schema names as json tags; size constant
    and Size() = ceil(N/8); BpProcessor() tree = the model's = the generated Python module's"""
    it = Interp(prog, oblige=_collector(E))
    tn = go_struct_name(msg)
    if tn not in pkg.types:
        E.oblige(label + "/struct-declared", False)
        return
    u = pkg.types[tn]
    fields = [(names[0], _type_text(it, pkg, fty), re.search(r'json:"([^",]+)', tag or "").group(1) if tag and "json:" in tag else None)
              for names, fty, tag in u[1]] if u[0] == "struct" else []
    want = [(f.name, go_type_of(f.type)) for f in msg.sorted_fields()]
    E.oblige(label + "/fields-in-number-order-with-covering-types",
             z3.BoolVal([(tag, ty) for _, ty, tag in fields] == want),
             meta={"got": [(tag, ty) for _, ty, tag in fields], "want": want})
    n = L.nbytes(msg)
    cname = [c for c in pkg.consts if c.startswith("BYTES_LENGTH_")]
    sz = it.invoke(("method", GPtr(it.zero(pkg, ("name", tn))), "Size"), [])[0]
    E.oblige(label + "/Size()", z3.BoolVal(isinstance(sz, GI) and sz.v == n))
    consts = {c: it.ev(pkg, {}, ("id", c)) for c in cname}
    vals = sorted((c, (x.v if isinstance(x, GI) else x)) for c, x in consts.items())
    mine = [v for c, v in vals if c.replace("_", "") == ("BYTES_LENGTH_" + tn).upper().replace("_", "")]
    E.oblige(label + "/size-constant", z3.BoolVal(mine == [n]), meta={"consts": vals})
    tree = processor_tree(it.invoke(("method", GPtr(it.zero(pkg, ("name", tn))), "BpProcessor"), [])[0])
    E.oblige(label + "/processor-tree-equals-model", z3.BoolVal(tree == model_processor_tree(msg)),
             meta={"go": repr(tree)[:600], "model": repr(model_processor_tree(msg))[:600]})
    if py_cls is not None:
        pt = py_processor_tree(py_cls().bp_processor())
        E.oblige(label + "/processor-tree-equals-python", z3.BoolVal(tree == pt), meta={"python": repr(pt)[:600]})
        E.oblige(label + "/size-equals-python", z3.BoolVal(getattr(py_cls, "BYTES_LENGTH", None) == n))
