"""Verdicts -> exit code, VIOLATION / KNOWN-FINDING lines, replay files, evidence."""
from __future__ import annotations

import hashlib
import json
import os
import re
import subprocess
import sys
import time
from collections import Counter
from typing import Dict, List

from . import obl as OB
from .registry import PROOFS, ProofResult

ROOT = os.path.dirname(os.path.dirname(os.path.dirname(os.path.abspath(__file__))))
# VERIF_OUT redirects evidence/ and replays/ (used only by tools/seed_matrix.py when it runs the checks against scratch copies
# with seeded changes, so that those runs never overwrite the evidence of the real tree)
OUT = os.environ.get("VERIF_OUT") or ROOT
EVID = os.path.join(OUT, "evidence")
REPL = os.path.join(OUT, "replays")
KNOWN = os.path.join(ROOT, "known_findings.json")


def load_known() -> List[dict]:
    if not os.path.exists(KNOWN):
        return []
    with open(KNOWN) as f:
        return json.load(f).get("findings", [])


def _safe(s: str) -> str:
    return re.sub(r"[^A-Za-z0-9_.+-]+", "_", s)[:150]


def _matches_finding(o: OB.Obligation, f: dict, prop: str) -> bool:
    """An open finding suppresses exactly the obligations it names (by id prefix) for the properties it lists."""
    if f.get("status") != "open":
        return False
    if prop not in f.get("properties", []):
        return False
    return any(o.oid == p or o.oid.startswith(p) for p in f.get("obligations", []))


def _pid_of(o) -> str:
    for p in sorted(PROOFS, key=len, reverse=True):
        if o.oid.startswith(p + "/"):
            return p
    return o.oid.split("/", 1)[0]


TRUST_C = ["C: clang 14's typed JSON AST of the real source (x86-64 LP64 sizes; natural alignment computed by vf/csym/ctypes_.py); my interpreter "
           "of the AST node kinds used (vf/csym/interp.py, generic.py): byte-wise typed access in target byte order, strict aliasing and "
           "alignment not modelled, objects of type bool hold 0/1, big-endian runs assume an LP64 big-endian target",
           "C: every signed overflow, bad shift, out-of-bounds or uninitialised access, division by zero is an obligation (source semantics; "
           "compiler optimisation levels are not enumerated); static locals other than `static const` hold arbitrary contents at first use",
           "C: libc calls (memset / memcpy modelled; vsprintf / vsnprintf / va_start / va_end by their C99 contracts) are external",
           "C generic mode: products / quotients of two symbolic operands as uninterpreted functions with lemma instances proved over the "
           "mathematical integers (machine arithmetic treated as mathematical under the stated no-overflow bounds)"]
TRUST_GO = ["Go: my own Go-subset parser and interpreter (vf/gosym) - there is no Go tool chain in this sandbox to cross-check it; int is 64-bit "
            "two's complement with wrap-around, shifts / conversions / slices / defer / method sets as in the Go spec for the subset used; "
            "goroutines, maps, closures, generics are outside the subset (exit 3 if met)",
            "Go: interface values whose dynamic type is not under proof are abstract objects known only by the stated contract"]


def _trusted(chk, results):
    out = list(chk.trusted_base)
    pids = [r.pid for r in results]
    if any(p.startswith(("gen-c:", "c[")) for p in pids):
        out += TRUST_C
    if any(p.startswith(("gen-go:", "go:")) for p in pids):
        out += TRUST_GO
    return out


def write_replay(prop: str, o: OB.Obligation, results_by_pid: Dict[str, ProofResult]) -> (str, bool):
    """Write the replay file for a refuted obligation. Returns (path, reproduced_natively)."""
    os.makedirs(os.path.join(REPL, prop), exist_ok=True)
    path = os.path.join(REPL, prop, _safe(o.oid) + ".json")
    model, reproduced, native, m = {}, False, None, None
    try:
        vals, m = OB.model_for(o, o.meta.get("inputs", []), timeout_s=60)
        if vals:
            model = {k: v for k, v in vals.items() if isinstance(v, int) or len(str(v)) < 400}
    except Exception as e:  # model extraction is best effort
        model = {"error": repr(e)}
    # concrete re-execution of the real function on the counter-model (same proof body, inputs fixed to the model)
    pid = None
    for p in sorted(PROOFS, key=len, reverse=True):
        if o.oid.startswith(p + "/"):
            pid = p
            break
    try:
        if pid and m is not None:
            conc = {d.name(): m[d] for d in m.decls() if d.arity() == 0}
            import inspect
            if "only" in inspect.signature(PROOFS[pid].run).parameters:
                r2 = PROOFS[pid].run(concrete=conc, only=o.oid)
            else:
                r2 = PROOFS[pid].run(concrete=conc)
            label = o.meta.get("label")
            same = [x for x in r2.obls if x.meta.get("label") == label]
            OB.solve_all(same, nproc=1, timeout_s=30)
            failing = [x for x in same if x.verdict == "refuted"]
            stubs = PROOFS[pid].calls
            front = "c" if pid.startswith(("gen-c:", "c[")) else "go" if pid.startswith(("gen-go:", "go:")) else "py"
            how = {"py": "the real function re-executed by CPython on the model's concrete inputs",
                   "c": "the real C (clang AST of the working tree) re-executed by the csym interpreter on the model's concrete inputs",
                   "go": "the real Go source re-executed by the gosym interpreter on the model's concrete inputs (no Go tool chain here)"}[front]
            native = {"mode": how + (" (callees %s replaced by contract-conforming stubs returning the model's values)" % stubs
                                     if stubs else " (no callee replaced)"),
                      "obligation_fails_on_concrete_run": bool(failing), "checker_error": r2.error}
            reproduced = bool(failing) and not stubs
            nat_c = (r2.replay or {}).get("native_c") if getattr(r2, "replay", None) else None
            if nat_c:
                # the tool-chain replay: generated C (+ lib/c/bitproto.c) compiled with cc and run on the same inputs
                nat_c = [x for x in nat_c if o.oid.startswith(x.get("label", "?") + "/")]
                native["compiled_and_run_with_cc"] = nat_c
                ran = [x for x in nat_c if x.get("ran") and "differs_from_reference" in x]
                if ran:
                    native["native_binary_differs_from_reference"] = any(x["differs_from_reference"] for x in ran)
                    if not native["native_binary_differs_from_reference"]:
                        # frame / UB obligations need not show in the bytes; a byte / field obligation that does not reproduce
                        # natively is reported as not reproduced (the VIOLATION line then ends no-failing-input-found)
                        if o.kind == "post":
                            reproduced = False
    except Exception as e:
        native = {"error": repr(e)}
    doc = {
        "property": prop,
        "obligation": o.oid,
        "kind": o.kind,
        "function": o.func,
        "where": o.where,
        "verdict": o.verdict,
        "backend": o.backend,
        "solver_time_s": round(o.time_s, 3),
        "solver_detail": o.detail,
        "model": model,
        "native_replay": native,
        "reproduced_on_real_code": reproduced,
        "how_to_replay": "bin/vcheck %s --replay %s" % (prop, os.path.relpath(path, ROOT)),
        "smt2": o.smt2 if len(o.smt2) < 200000 else o.smt2[:200000] + "\n; ... truncated",
    }
    with open(path, "w") as f:
        json.dump(doc, f, indent=1, default=str)
    return path, reproduced


def finish(chk, tier: str, seed: int, results: List[ProofResult], obls: List[OB.Obligation], wall: float,
           write: bool = True, extra: dict = None) -> int:
    prop = chk.prop
    known = load_known()
    errors = [r for r in results if r.error]
    bad = [o for o in obls if o.verdict != "discharged"]
    refuted = [o for o in bad if o.verdict == "refuted"]
    unknown = [o for o in bad if o.verdict == "unknown"]
    oerrs = [o for o in bad if o.verdict not in ("refuted", "unknown")]
    extra = extra or {}

    lines = []
    violations = 0
    known_hits = Counter()
    by_pid = {r.pid: r for r in results}
    MAX_FULL, MAX_PER_PROOF = 8, 2
    full_done = Counter()
    others = []
    for o in refuted:
        hit = None
        for f in known:
            if _matches_finding(o, f, prop):
                hit = f
                break
        if hit:
            known_hits[hit["id"]] += 1
            continue
        violations += 1
        pid = _pid_of(o)
        if sum(full_done.values()) >= MAX_FULL or full_done[pid] >= MAX_PER_PROOF:
            others.append(o)
            continue
        full_done[pid] += 1
        path, repro = write_replay(prop, o, by_pid)
        lines.append("VIOLATION property=%s replay=%s%s" % (prop, os.path.relpath(path, ROOT),
                                                           "" if repro else " no-failing-input-found"))
        lines.append("  failed obligation: %s  (%s, %s, %s)" % (o.oid, o.kind, o.func, o.where))
    if others:
        os.makedirs(os.path.join(REPL, prop), exist_ok=True)
        path = os.path.join(REPL, prop, "_further_refuted_obligations.json")
        with open(path, "w") as f:
            json.dump([{"obligation": o.oid, "kind": o.kind, "function": o.func, "where": o.where,
                        "backend": o.backend, "smt2_head": o.smt2[:2000]} for o in others], f, indent=1)
        lines.append("VIOLATION property=%s replay=%s no-failing-input-found" % (prop, os.path.relpath(path, ROOT)))
        lines.append("  %d further refuted obligations (models not extracted; first: %s)" % (len(others), others[0].oid))
    for v in extra.get("violations", []):       # violations found by bounded stand-ins / structural comparisons
        violations += 1
        lines.append("VIOLATION property=%s replay=%s%s" % (prop, v["replay"], "" if v.get("reproduced") else
                                                           " no-failing-input-found"))
        lines.append("  %s" % v.get("what", ""))
    for f in known:
        if f.get("status") == "open" and prop in f.get("properties", []):
            n = known_hits.get(f["id"], 0)
            if n:
                lines.append("KNOWN-FINDING: property=%s %s (%s; %d refuted obligation(s) attributed)" % (
                    prop, f["what"], f["id"], n))
            else:
                lines.append("NOTE: finding %s is listed as open but no obligation it names was refuted on this tree" % f["id"])
    for o in unknown:
        lines.append("UNDECIDED property=%s obligation=%s backend=%s detail=%s" % (prop, o.oid, o.backend, o.detail[:120]))
    for r in errors:
        lines.append("CHECKER-ERROR property=%s proof=%s: %s" % (prop, r.pid, r.error.splitlines()[0]))
    for o in oerrs:
        lines.append("CHECKER-ERROR property=%s obligation=%s: %s" % (prop, o.oid, o.detail[:200]))
    for e in extra.get("errors", []):
        lines.append("CHECKER-ERROR property=%s %s" % (prop, e))
    if not obls:
        lines.append("CHECKER-ERROR property=%s: zero obligations generated" % prop)

    for ln in lines:
        print(ln)

    if violations:
        code = 1
    elif errors or oerrs or not obls or extra.get("errors"):
        code = 3
    elif unknown:
        code = 2
    else:
        code = 0

    if write:
        write_evidence(chk, tier, seed, results, obls, wall, violations, known_hits, extra, code)
    n_ok = sum(1 for o in obls if o.verdict == "discharged")
    print("%s tier=%s: %d proofs, %d obligations, %d discharged, %d refuted (%d attributed to known findings), "
          "%d undecided, %d checker errors, %.1fs -> exit %d" % (
              prop, tier, len(results), len(obls), n_ok, len(refuted), sum(known_hits.values()), len(unknown),
              len(errors) + len(oerrs), wall, code))
    return code


def write_evidence(chk, tier, seed, results, obls, wall, violations, known_hits, extra, code):
    os.makedirs(EVID, exist_ok=True)
    prop = chk.prop
    n_ok = sum(1 for o in obls if o.verdict == "discharged")
    by_backend = Counter(o.backend.replace("(dedup)", "") for o in obls if o.verdict == "discharged")
    by_kind = Counter(o.kind for o in obls)
    generic = [o for o in obls if o.scope == "generic"]
    program = [o for o in obls if o.scope == "program"]
    funcs = []
    n_scenario = 0
    for r in results:
        p = PROOFS.get(r.pid)
        if p is None:
            continue
        # a generic proof none of whose obligations mentions a symbolic input pins the contract on concrete scenarios (real objects,
        # fixed histories): those obligations are CHECKED on the scenario, not proved for all inputs - reported apart
        scenario = p.scope == "generic" and bool(r.obls) and all("declare-" not in (o.smt2 or "") for o in r.obls)
        if scenario:
            n_scenario += len(r.obls)
        funcs.append({"proof": r.pid, "function": p.func, "file": p.file, "line": r.line, "source_sha256_16": r.sha,
                      "scope": p.scope, "quantification": ("concrete scenarios of the contract (checked on the stated objects / histories, "
                                                           "not proved for all inputs)" if scenario else
                                                           "one generated program, all values" if p.scope == "program" else
                                                           "all inputs satisfying the precondition"),
                      "paths": r.paths, "obligations": len(r.obls),
                      "discharged": sum(1 for o in r.obls if o.verdict == "discharged"),
                      "callees_replaced_by_contract_stubs": p.calls, "cut_loops": r.cut_loops})
    samples = []
    interesting = sorted([o for o in obls if o.smt2], key=lambda o: (-o.time_s))[:3] + \
        [o for o in obls if o.kind in ("post", "frame", "inv-preserve") and o.smt2][:2]
    seen = set()
    for o in interesting:
        if o.oid in seen:
            continue
        seen.add(o.oid)
        samples.append({"obligation": o.oid, "kind": o.kind, "function": o.func, "where": o.where,
                        "verdict": o.verdict, "backend": o.backend, "time_s": round(o.time_s, 3),
                        "smt2_head": o.smt2[:1200]})
    assumed = sorted({a for r in results for a in (PROOFS[r.pid].assumes if r.pid in PROOFS else [])})
    n_known = sum(known_hits.values())
    cov = {
        "obligations": len(obls) - n_known,
        "discharged": n_ok,
        "obligations_refuted_and_attributed_to_open_known_findings": n_known,
        "checker_cmd": "bin/vcheck %s --tier %s" % (prop, tier),
        "trusted_base": _trusted(chk, results),
        "obligations_generic": len(generic),
        "obligations_generic_on_concrete_scenarios_only": n_scenario,
        "obligations_per_program": len(program),
        "refuted": sum(1 for o in obls if o.verdict == "refuted"),
        "refuted_attributed_to_known_findings": dict(known_hits),
        "undecided": sum(1 for o in obls if o.verdict == "unknown"),
        "by_backend": dict(by_backend),
        "by_kind": dict(by_kind),
        "solver_time_s": {"sum": round(sum(o.time_s for o in obls), 2),
                          "max": round(max([o.time_s for o in obls] or [0]), 2)},
        "proofs": len(results),
        "functions_under_contract": funcs,
        "assumed_contracts": assumed,
        "samples": samples,
        "exit_code": code,
        "explanation": chk.explanation,
    }
    for k, v in (extra.get("coverage") or {}).items():
        cov[k] = v
    doc = {
        "property_id": prop,
        "tier": tier,
        "seed": seed,
        "level": chk.level,
        "coverage": cov,
        "assumptions": chk.assumptions + assumed,
        "wall_s": round(wall, 2),
        "violations": violations,
    }
    with open(os.path.join(EVID, prop + ".json"), "w") as f:
        json.dump(doc, f, indent=1, default=str)


def replay(chk, path: str) -> int:
    """Re-run the proof a replay file came from; exit 1 if the named obligation is still refuted."""
    from . import runner
    if not os.path.isabs(path):
        path = os.path.join(ROOT, path)
    with open(path) as f:
        doc = json.load(f)
    oid = doc["obligation"]
    pid = None
    for p in sorted(PROOFS, key=len, reverse=True):
        if oid.startswith(p + "/"):
            pid = p
            break
    if pid is None:
        print("CHECKER-ERROR cannot map obligation %s to a proof" % oid)
        return 3
    results, obls = runner.run([pid], nproc=8)
    if results[0].error:
        print("CHECKER-ERROR %s" % results[0].error)
        return 3
    hits = [o for o in obls if o.oid == oid]
    if not hits:
        print("obligation %s is no longer generated (paths changed); verdicts of the proof: %s" % (
            oid, Counter(o.verdict for o in obls)))
        bad = [o for o in obls if o.verdict == "refuted"]
        return 1 if bad else 0
    o = hits[0]
    print("replayed %s: %s (%s, %.2fs)" % (oid, o.verdict, o.backend, o.time_s))
    if o.verdict == "refuted":
        print("VIOLATION property=%s replay=%s" % (chk.prop, os.path.relpath(path, ROOT)))
        return 1
    return 0 if o.verdict == "discharged" else 2
