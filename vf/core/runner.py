"""Generate obligations for a set of proofs (in parallel), solve them, return results."""
from __future__ import annotations

import multiprocessing as mp
import os
import time
from concurrent.futures import ProcessPoolExecutor
from typing import Dict, List, Tuple

from . import obl as OB
from .registry import PROOFS, ProofResult


def _gen(pid: str) -> ProofResult:
    t0 = time.time()
    r = PROOFS[pid].run()
    r.notes.append("gen_s=%.2f" % (time.time() - t0))
    return r


def generate(pids: List[str], nproc: int = OB.NPROC) -> List[ProofResult]:
    if nproc <= 1 or len(pids) <= 1:
        return [_gen(p) for p in pids]
    ctx = mp.get_context("fork")
    with ProcessPoolExecutor(max_workers=min(nproc, len(pids)), mp_context=ctx) as ex:
        return list(ex.map(_gen, pids))


def run(pids: List[str], timeout_s: float = OB.DEFAULT_TIMEOUT_S, nproc: int = OB.NPROC, verbose: bool = False,
        prop: str = None) -> Tuple[List[ProofResult], List[OB.Obligation]]:
    t0 = time.time()
    results = generate(pids, nproc)
    allo: List[OB.Obligation] = []
    for r in results:
        if prop:      # keep the obligations that serve this property (tags are per obligation)
            r.obls = [o for o in r.obls if prop in o.meta.get("props", [prop])]
        allo.extend(r.obls)
    if verbose:
        print("generated %d obligations from %d proofs in %.1fs" % (len(allo), len(results), time.time() - t0), flush=True)
    t1 = time.time()
    OB.solve_all(allo, timeout_s=timeout_s, nproc=nproc,
                 progress=(lambda n, m: print("  solved %d/%d" % (n, m), flush=True)) if verbose else None)
    if verbose:
        print("solved in %.1fs" % (time.time() - t1), flush=True)
    return results, allo
