"""Registry of proofs.  A proof = one function (or one generated program) under one contract variant.

Each proof is a callable  run() -> ProofResult  that (re-)reads the real source
from the repository working tree, executes it symbolically and returns the
obligations it generated.  Proofs are picklable by id (workers look them up).
"""
from __future__ import annotations

from dataclasses import dataclass, field
from typing import Any, Callable, Dict, List, Optional

from .obl import Obligation


@dataclass
class ProofDef:
    pid: str
    func: str                   # qualified name of the function under contract
    file: str                   # repository-relative file
    props: List[str]
    run: Callable[[], "ProofResult"]
    scope: str = "generic"
    must_labels: List[str] = field(default_factory=list)   # labels that must be generated at least once
    doc: str = ""
    calls: List[str] = field(default_factory=list)          # callees replaced by contract stubs
    assumes: List[str] = field(default_factory=list)        # assumed (external / unverified) contracts used


@dataclass
class ProofResult:
    pid: str
    obls: List[Obligation]
    paths: int = 0
    sha: str = ""
    line: int = 0
    cut_loops: Dict[str, Any] = field(default_factory=dict)
    notes: List[str] = field(default_factory=list)
    error: str = ""             # checker error (exit 3)
    replay: Optional[dict] = None


PROOFS: Dict[str, ProofDef] = {}


def register(p: ProofDef) -> ProofDef:
    if p.pid in PROOFS:
        raise KeyError("duplicate proof id " + p.pid)
    PROOFS[p.pid] = p
    return p


def proofs_for(prop: str) -> List[ProofDef]:
    return [p for p in PROOFS.values() if prop in p.props]
