"""Obligation store and solver portfolio (z3 -> cvc5) with a process pool.

An obligation is a closed formula  PC => G.  `expect='valid'` obligations are
discharged when  PC /\\ not G  is unsat; `expect='sat'` (cover) obligations
are discharged when  PC /\\ G  is satisfiable (vacuity guard).
"""
from __future__ import annotations

import hashlib
import os
import subprocess
import tempfile
import time
from concurrent.futures import ProcessPoolExecutor
from dataclasses import dataclass, field
from typing import Any, Dict, List, Optional

import z3

NPROC = int(os.environ.get("VERIF_NPROC", "16"))
DEFAULT_TIMEOUT_S = float(os.environ.get("VERIF_OBL_TIMEOUT", "120"))


@dataclass
class Obligation:
    oid: str                      # stable semantic id
    kind: str                     # post, inv-entry, inv-preserve, variant, no-exception, index-in-range,
                                  # byte-range, no-overflow, ub, frame, lemma, cover, pre-of-callee
    func: str                     # function under contract (qualified)
    where: str                    # file:line of the function
    smt2: str                     # SMT-LIB text:  PC /\ not G  (valid)  or  PC /\ G  (cover)
    expect: str = "valid"         # 'valid' | 'sat'
    scope: str = "generic"        # 'generic' (all inputs) | 'program' (one generated program, all values)
    finding: Optional[str] = None  # id of a known finding this clause belongs to (reported, not failed)
    meta: Dict[str, Any] = field(default_factory=dict)
    # filled by solve():
    verdict: str = ""             # discharged | refuted | unknown | error
    backend: str = ""
    time_s: float = 0.0
    detail: str = ""
    timeout_s: float = 0.0
    pruned_smt2: str = ""         # optional easier variant (fewer hypotheses): `unsat` on it discharges; anything else falls back


def make(oid, kind, func, where, pc, goal, expect="valid", pruned_pc=None, **kw) -> Obligation:
    """Build an obligation from z3 terms.  A goal the simplifier reduces to `true` is recorded as
    discharged by back end 'z3-simplify' (no query)."""
    g = z3.simplify(goal)
    if expect == "valid" and z3.is_true(g):
        o = Obligation(oid=oid, kind=kind, func=func, where=where, smt2="", expect=expect, **kw)
        o.verdict, o.backend = "discharged", "z3-simplify"
        return o
    s = z3.Solver()
    for c in pc:
        s.add(c)
    # the ORIGINAL goal goes to the solvers (the simplifier's arithmetic normal forms make quantified bit-vector goals harder)
    s.add(z3.Not(goal) if expect == "valid" else goal)
    o = Obligation(oid=oid, kind=kind, func=func, where=where, smt2=s.to_smt2(), expect=expect, **kw)
    if pruned_pc is not None and expect == "valid":
        s2 = z3.Solver()
        for c in pruned_pc:
            s2.add(c)
        s2.add(z3.Not(goal))
        o.pruned_smt2 = s2.to_smt2()
    return o


def _run_z3(smt2: str, timeout_s: float):
    ctx = z3.Context()
    s = z3.Solver(ctx=ctx)
    s.set("timeout", int(timeout_s * 1000))
    s.from_string(smt2)
    t0 = time.time()
    r = s.check()
    dt = time.time() - t0
    rs = str(r)
    why = ""
    if rs == "unknown":
        try:
            why = s.reason_unknown()
        except Exception:
            why = "?"
    return rs, dt, why


def _run_cvc5(smt2: str, timeout_s: float):
    txt = "(set-logic ALL)\n" + smt2
    with tempfile.NamedTemporaryFile("w", suffix=".smt2", delete=False) as f:
        f.write(txt)
        path = f.name
    t0 = time.time()
    try:
        p = subprocess.run(["/usr/bin/cvc5", "--lang=smt2", "--tlimit=%d" % int(timeout_s * 1000), path],
                           capture_output=True, text=True, timeout=timeout_s + 10)
        out = (p.stdout or "").strip().splitlines()
        rs = out[0].strip() if out else "unknown"
        if rs not in ("sat", "unsat", "unknown"):
            rs = "unknown"
        why = (p.stderr or "")[:200]
    except Exception as e:  # timeout or crash of the back end: undecided, never a verdict
        rs, why = "unknown", "cvc5: %r" % (e,)
    finally:
        os.unlink(path)
    return rs, time.time() - t0, why


def _run_z3_old(smt2: str, timeout_s: float):
    """/usr/bin/z3 4.8.12 (Debian): markedly faster than 5.1 on the bit-vector obligations of the C contracts"""
    with tempfile.NamedTemporaryFile("w", suffix=".smt2", delete=False) as f:
        f.write(smt2)
        path = f.name
    t0 = time.time()
    try:
        p = subprocess.run(["/usr/bin/z3", "-T:%d" % max(1, int(timeout_s)), path], capture_output=True, text=True,
                           timeout=timeout_s + 10)
        out = (p.stdout or "").strip().splitlines()
        rs = out[0].strip() if out else "unknown"
        if rs not in ("sat", "unsat"):
            rs = "unknown"
        why = "" if rs != "unknown" else (out[0] if out else "")[:100]
    except Exception as e:
        rs, why = "unknown", "z3-4.8: %r" % (e,)
    finally:
        os.unlink(path)
    return rs, time.time() - t0, why


def _solve_job(job):
    if len(job) == 5:
        idx, smt2, timeout_s, use_cvc5, mode = job
        try:
            if mode == "full-z3new":      # z3 5.1 on the full query for the whole budget
                rs, dt, why = _run_z3(smt2, timeout_s)
                return idx, rs, "z3", dt, why
            if mode == "full-z3old":
                rs, dt, why = _run_z3_old(smt2, timeout_s)
                return idx, rs, "z3-4.8.12", dt, why
            if mode == "pruned":          # subset of hypotheses: only `unsat` is conclusive
                pruned = smt2
                rs, dt, why = _run_z3_old(pruned, timeout_s)
                if rs != "unsat":
                    rs2, dt2, why2 = _run_z3(pruned, timeout_s)
                    dt += dt2
                    rs = rs2 if rs2 == "unsat" else "unknown"
                return idx, rs if rs == "unsat" else "unknown", "z3(pruned hypotheses)", dt, ""
        except Exception as e:
            return idx, "unknown", mode, 0.0, repr(e)
    idx, smt2, timeout_s, use_cvc5 = job
    if isinstance(smt2, tuple):
        # (pruned, full): the pruned variant has a subset of the hypotheses, so `unsat` there is a proof; otherwise decide the full one
        pruned, full = smt2
        try:
            rs, dt, why = _run_z3(pruned, min(timeout_s, 5.0))
            be = "z3"
            if rs != "unsat" and os.path.exists("/usr/bin/z3"):
                rs2, dt2, why2 = _run_z3_old(pruned, min(timeout_s, 60.0))
                dt += dt2
                if rs2 == "unsat":
                    rs, be = rs2, "z3-4.8.12"
            if rs == "unsat":
                return idx, "unsat", be + "(pruned hypotheses)", dt, ""
        except Exception:
            pass
        # full query: z3 5.1 first for the whole budget (it decides the heavy quantified ones), then 4.8.12, then cvc5
        try:
            rs, dt2, why = _run_z3(full, timeout_s)
            if rs in ("sat", "unsat"):
                return idx, rs, "z3", dt + dt2, ""
            rs, dt3, why3 = _run_z3_old(full, timeout_s)
            if rs in ("sat", "unsat"):
                return idx, rs, "z3-4.8.12", dt + dt2 + dt3, ""
            return idx, "unknown", "z3", dt + dt2 + dt3, "z3: %s; z3-4.8.12: %s" % (why, why3)
        except Exception as e:
            return idx, "error", "z3", 0.0, repr(e)
    try:
        first = min(timeout_s, 40.0)
        rs, dt, why = _run_z3(smt2, first)
        backend = "z3"
        if rs == "unknown" and os.path.exists("/usr/bin/z3"):
            rs2, dt2, why2 = _run_z3_old(smt2, timeout_s)
            dt += dt2
            if rs2 in ("sat", "unsat"):
                rs, backend, why = rs2, "z3-4.8.12", ""
            else:
                why = "z3: %s; z3-4.8.12: %s" % (why, why2)
        if rs == "unknown" and timeout_s > first:
            rs3, dt3, why3 = _run_z3(smt2, timeout_s)
            dt += dt3
            if rs3 in ("sat", "unsat"):
                rs, backend, why = rs3, "z3", ""
        if rs == "unknown" and use_cvc5:
            rs2, dt2, why2 = _run_cvc5(smt2, min(timeout_s, 60))
            dt += dt2
            if rs2 in ("sat", "unsat"):
                rs, backend, why = rs2, "cvc5", ""
            else:
                why = "%s; cvc5: %s" % (why, why2)
        return idx, rs, backend, dt, why
    except Exception as e:
        return idx, "error", "z3", 0.0, repr(e)


def solve_all(obls: List[Obligation], timeout_s: float = DEFAULT_TIMEOUT_S, nproc: int = NPROC,
              use_cvc5: bool = True, progress=None) -> None:
    """Decide every obligation in place.  Identical queries are solved once."""
    jobs = []
    seen: Dict[str, int] = {}
    dup: Dict[int, List[int]] = {}
    for i, o in enumerate(obls):
        if o.verdict:
            continue
        txt = o.smt2
        h = hashlib.sha1((o.expect + txt + o.pruned_smt2).encode()).hexdigest()
        if h in seen:
            dup.setdefault(seen[h], []).append(i)
            continue
        seen[h] = i
        to = o.timeout_s or timeout_s
        if o.meta.get("strategy") == "parallel":
            # three independent attempts in parallel; the first conclusive verdict counts (unsat from any; sat only from a full query)
            jobs.append((i, txt, to, use_cvc5, "full-z3new"))
            jobs.append((i, txt, to, use_cvc5, "full-z3old"))
            if o.pruned_smt2:
                jobs.append((i, o.pruned_smt2, to, use_cvc5, "pruned"))
        else:
            jobs.append((i, (o.pruned_smt2, txt) if o.pruned_smt2 else txt, to, use_cvc5))

    def finish(i, rs, backend, dt, why):
        o = obls[i]
        if o.meta.get("strategy") == "parallel":
            if o.verdict in ("discharged", "refuted"):
                return                      # already decided by another attempt
            if rs not in ("sat", "unsat") and o.meta.setdefault("_attempts", 0) + 1 < (3 if o.pruned_smt2 else 2):
                o.meta["_attempts"] += 1    # wait for the other attempts
                o.backend, o.time_s, o.detail, o.verdict = backend, max(o.time_s, dt), why, "unknown"
                return
        o.backend, o.time_s, o.detail = backend, dt, why
        if rs == "error":
            o.verdict = "error"
        elif o.expect == "valid":
            o.verdict = {"unsat": "discharged", "sat": "refuted"}.get(rs, "unknown")
        else:
            o.verdict = {"sat": "discharged", "unsat": "refuted"}.get(rs, "unknown")

    if not jobs:
        return
    if nproc <= 1 or len(jobs) == 1:
        results = map(_solve_job, jobs)
        for r in results:
            finish(*r)
            for j in dup.get(r[0], []):
                finish(j, *r[1:])
        return
    # heavy jobs (quantified / with a pruned variant / explicit budget) are started first, one per task; the many small ones
    # follow in chunks, so a heavy query never waits behind thousands of trivial ones
    def heavy(j):
        txt = j[1][1] if isinstance(j[1], tuple) else j[1]
        return isinstance(j[1], tuple) or "forall" in txt or obls[j[0]].timeout_s > 0
    hj = [j for j in jobs if heavy(j)]
    lj = [j for j in jobs if not heavy(j)]
    cs = max(1, min(32, len(lj) // (nproc * 4) or 1))
    chunks = [lj[k:k + cs] for k in range(0, len(lj), cs)]
    with ProcessPoolExecutor(max_workers=nproc) as ex:
        futs = [ex.submit(_solve_chunk, [j]) for j in hj] + [ex.submit(_solve_chunk, ch) for ch in chunks]
        n = 0
        from concurrent.futures import as_completed
        for f in as_completed(futs):
            for r in f.result():
                finish(*r)
                for j in dup.get(r[0], []):
                    finish(j, *r[1:])
                    obls[j].backend += "(dedup)"
                    obls[j].time_s = 0.0
                n += 1
                if progress and n % 200 == 0:
                    progress(n, len(jobs))


def _solve_chunk(chunk):
    return [_solve_job(j) for j in chunk]


def model_for(o: Obligation, inputs: List[str], timeout_s: float = 60.0, minimise: bool = True):
    """Re-solve a refuted obligation in this process; return {name: int} for the named input
    constants under a model with (greedily) minimised absolute values, plus the model itself."""
    s = z3.Solver()
    s.set("timeout", int(timeout_s * 1000))
    s.from_string(o.smt2)
    if s.check() != z3.sat:
        return None, None
    m = s.model()
    consts = {d.name(): d() for d in m.decls() if d.arity() == 0}
    xs = [consts[n] for n in inputs if n in consts and (z3.is_bv(consts[n]) or z3.is_int(consts[n]))]
    if minimise:
        s.set("timeout", 5000)
        for x in xs:
            absx = z3.If(x < 0, -x, x)
            lo, hi = 0, abs(_val(m, x))
            while lo < hi:
                mid = (lo + hi) // 2
                s.push()
                s.add(absx <= mid)
                r = s.check()
                if r == z3.sat:
                    m = s.model()
                    hi = abs(_val(m, x))
                    s.pop()
                else:
                    s.pop()
                    if r != z3.unsat:
                        break
                    lo = mid + 1
            s.add(absx <= abs(_val(m, x)))
            if s.check() == z3.sat:
                m = s.model()
            else:
                break
    vals = {}
    for d in m.decls():
        if d.arity() == 0:
            v = m[d]
            try:
                vals[d.name()] = v.as_signed_long() if z3.is_bv(v) else (v.as_long() if z3.is_int_value(v) else str(v))
            except Exception:
                vals[d.name()] = str(v)
    return vals, m


def _val(m, x):
    v = m.eval(x, model_completion=True)
    if z3.is_bv(x):
        return v.as_signed_long()
    return v.as_long()
