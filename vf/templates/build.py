"""Run the real compiler (imported from the repository working tree) on a schema printed from the
reference model.  Scratch files live in a mkdtemp directory outside /repo and /verif, removed at exit."""
from __future__ import annotations

import atexit
import os
import shutil
import sys
import tempfile
from typing import Dict, List, Optional, Tuple

from ..spec import layout as L

_SCRATCH: Optional[str] = None


def scratch() -> str:
    global _SCRATCH
    if _SCRATCH is None or not os.path.isdir(_SCRATCH) or _owner != os.getpid():
        _new_scratch()
    return _SCRATCH


_owner = None


def _new_scratch():
    global _SCRATCH, _owner
    parent = os.environ.get("VF_SCRATCH_PARENT")
    _SCRATCH = tempfile.mkdtemp(prefix="bpverif-", dir=parent if parent and os.path.isdir(parent) else None)
    _owner = os.getpid()
    d = _SCRATCH
    pid = os.getpid()

    def _rm():
        if os.getpid() == pid:
            shutil.rmtree(d, ignore_errors=True)
    atexit.register(_rm)


def _all_protos(s: L.Schema, acc=None) -> List[L.Schema]:
    acc = [] if acc is None else acc
    for imp, _ in s.imports:
        _all_protos(imp, acc)
    if s not in acc:
        acc.append(s)
    return acc


def write_sources(s: L.Schema, d: str, text_kw: Optional[dict] = None) -> str:
    for p in _all_protos(s):
        with open(os.path.join(d, p.fname()), "w") as f:
            f.write(L.to_text(p, **(text_kw or {})))
    return os.path.join(d, s.fname())


def compile_schema(s: L.Schema, lang: str, optimize: bool = False, endian: str = "both",
                   filter_messages: Optional[List[str]] = None, text_kw: Optional[dict] = None,
                   with_imports: bool = True) -> Dict[str, str]:
    """Returns {generated file base name: text} for schema s (and, with_imports, the schemas it imports)."""
    from bitproto.parser import parse
    from bitproto.renderer import render

    d = tempfile.mkdtemp(dir=scratch())
    try:
        write_sources(s, d, text_kw)
        outdir = os.path.join(d, "out")
        os.makedirs(outdir)
        outs: Dict[str, str] = {}
        todo = _all_protos(s) if with_imports else [s]
        for p in todo:
            proto = parse(os.path.join(d, p.fname()), traditional_mode=optimize)
            paths = render(proto, lang, outdir=outdir, optimization_mode=optimize,
                           optimization_mode_filter_messages=filter_messages if p is s else None,
                           optimization_mode_endian=endian)
            for path in paths:
                with open(path) as f:
                    outs[os.path.basename(path)] = f.read()
        return outs
    finally:
        shutil.rmtree(d, ignore_errors=True)


def compile_schema_cli(s: L.Schema, lang: str, optimize: bool = False, endian: str = "both",
                       filter_messages: Optional[List[str]] = None) -> Dict[str, str]:
    """like compile_schema for the main file only, but through the real command line front end in a FRESH interpreter process
    (`python -m bitproto._main`): nothing an earlier rendering left in the process can influence the text"""
    import subprocess
    import sys
    d = tempfile.mkdtemp(dir=scratch())
    try:
        write_sources(s, d, None)
        outdir = os.path.join(d, "out")
        os.makedirs(outdir)
        cmd = [sys.executable, "-m", "bitproto._main", lang, os.path.join(d, s.fname()), outdir, "-q", "--endian", endian]
        if optimize:
            cmd.append("-O")
        if filter_messages is not None:
            cmd += ["-F", ",".join(filter_messages)]
        cp = subprocess.run(cmd, capture_output=True, text=True, timeout=300)
        if cp.returncode != 0:
            raise RuntimeError("bitproto exited with %d: %s" % (cp.returncode, (cp.stderr or cp.stdout)[-400:]))
        outs = {}
        for fn in os.listdir(outdir):
            with open(os.path.join(outdir, fn)) as f:
                outs[fn] = f.read()
        return outs
    finally:
        shutil.rmtree(d, ignore_errors=True)
