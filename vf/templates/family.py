"""The template family: the 'programs' quantifier of every per-program proof (DESIGN 2.6).

Generated code depends on a field through: kind, width, start bit offset, position (scalar, array element,
alias, array of alias, alias of array, array of alias of array, member of nested / extensible message) and the
order of field numbers.  `leaf_units` enumerates kind x width x offset x position; `composite_units` adds
nesting, arrays of messages, extensibility, permuted numbers, empty messages, nested definitions, imports.
quick tier: boundary widths; thorough tier: every width 1..64.
"""
from __future__ import annotations

from typing import Dict, List, Optional, Tuple

from ..spec import layout as L

QUICK_WIDTHS = [1, 2, 4, 7, 8, 9, 15, 16, 17, 24, 31, 32, 33, 48, 63, 64]
QUICK_ENUM_WIDTHS = [1, 3, 8, 11, 16, 32]


class Unit:
    def __init__(self, name: str, schema: L.Schema, messages: List[L.Message], tier: str = "quick", tags=()):
        self.name, self.schema, self.messages, self.tier, self.tags = name, schema, messages, tier, set(tags)


def _kind(tag: str, defs: list) -> L.Ty:
    if tag == "bool":
        return L.Bool()
    if tag == "byte":
        return L.Byte()
    if tag.startswith("uint"):
        return L.Uint(int(tag[4:]))
    if tag.startswith("int"):
        return L.Int(int(tag[3:]))
    if tag.startswith("enum"):
        n = int(tag[4:])
        top = (1 << n) - 1
        members = [("%s_ZERO" % tag.upper(), 0)]
        if n >= 1:
            members.append(("%s_TOP" % tag.upper(), top))
        if n >= 3:
            members.append(("%s_MID" % tag.upper(), (top // 3) | 1 | (1 << (n - 1) >> 1)))
            members.append(("%s_ALT" % tag.upper(), int("10" * 40, 2) & top))
        # unique values
        seen, ms = set(), []
        for nm, v in members:
            if v not in seen:
                seen.add(v)
                ms.append((nm, v))
        e = L.Enum("E%d" % n, n, ms)
        defs.append(e)
        return e
    raise ValueError(tag)


def kind_tags(tier: str) -> List[str]:
    ws = QUICK_WIDTHS if tier == "quick" else list(range(1, 65))
    ews = QUICK_ENUM_WIDTHS if tier == "quick" else [1, 2, 3, 5, 7, 8, 9, 11, 15, 16, 17, 24, 31, 32]
    return ["bool", "byte"] + ["uint%d" % n for n in ws] + ["int%d" % n for n in ws] + ["enum%d" % n for n in ews]


def leaf_unit(tag: str) -> Unit:
    """one schema file: kind `tag` at every offset 0..7 as a scalar, and at offsets 0/3/5 in every other position"""
    defs: list = []
    k = _kind(tag, defs)
    msgs: List[L.Message] = []
    is_enum = isinstance(k, L.Enum)

    def pad(off):
        return [L.Field("pad", 1, L.Uint(off))] if off else []

    for off in range(8):
        msgs.append(L.Message("S%d" % off, pad(off) + [L.Field("x", 2, k), L.Field("tail", 3, L.Uint(3))]))
    n = 0
    for off in (0, 3, 5):
        n += 1
        msgs.append(L.Message("Ar%d" % off, pad(off) + [L.Field("x", 2, L.Array(k, 3)), L.Field("tail", 3, L.Bool())]))
        if not is_enum:        # aliases name only unnamed types
            a = L.Alias("Al%dT" % n, k)
            defs.append(a)
            msgs.append(L.Message("Al%d" % off, pad(off) + [L.Field("x", 2, a), L.Field("tail", 3, L.Bool())]))
            msgs.append(L.Message("ArAl%d" % off, pad(off) + [L.Field("x", 2, L.Array(a, 2)), L.Field("tail", 3, L.Bool())]))
            aa = L.Alias("Row%d" % n, L.Array(k, 2))
            defs.append(aa)
            msgs.append(L.Message("AlAr%d" % off, pad(off) + [L.Field("x", 2, aa), L.Field("tail", 3, L.Bool())]))
            msgs.append(L.Message("ArAlAr%d" % off, pad(off) + [L.Field("x", 2, L.Array(aa, 2)), L.Field("tail", 3, L.Bool())]))
        inner = L.Message("In%d" % off, pad(off) + [L.Field("x", 2, k)])
        msgs.append(inner)
        msgs.append(L.Message("Ne%d" % off, [L.Field("h", 1, L.Uint(2)), L.Field("inner", 2, inner), L.Field("tail", 3, L.Bool())]))
        innerx = L.Message("Ix%d" % off, pad(off) + [L.Field("x", 2, k)], ext=True)
        msgs.append(innerx)
        msgs.append(L.Message("Nx%d" % off, [L.Field("inner", 2, innerx), L.Field("tail", 3, L.Uint(5))]))
        msgs.append(L.Message("Ax%d" % off, pad(off) + [L.Field("x", 2, L.Array(k, 2, ext=True)), L.Field("tail", 3, L.Uint(5))]))
    s = L.Schema("t_" + tag, defs + msgs)
    return Unit("leaf:" + tag, s, msgs, tags=("leaf", "traditional-part"))


def composite_units() -> List[Unit]:
    out: List[Unit] = []
    # --- nesting depth 3, arrays of messages, permuted numbers, empty message, nested definitions
    e = L.Enum("Color", 3, [("COLOR_UNKNOWN", 0), ("COLOR_RED", 1), ("COLOR_BLUE", 6)])
    ts = L.Alias("Ts", L.Int(24))
    row = L.Alias("Row", L.Array(L.Uint(5), 3))
    empty = L.Message("Empty", [])
    c = L.Message("C", [L.Field("z", 2, L.Int(7)), L.Field("y", 1, L.Bool())])           # declared out of number order
    b = L.Message("B", [L.Field("c", 3, c), L.Field("cs", 1, L.Array(c, 2)), L.Field("k", 2, L.Uint(13))])
    nested_enum = L.Enum("Mode", 2, [("MODE_OFF", 0), ("MODE_ON", 1), ("MODE_AUTO", 2)])
    inner = L.Message("N", [L.Field("z", 1, L.Uint(7)), L.Field("m", 2, nested_enum)])
    a = L.Message("A", [
        L.Field("last", 200, L.Uint(9)),
        L.Field("b", 7, b),
        L.Field("first", 1, L.Uint(3)),
        L.Field("col", 4, e),
        L.Field("t", 3, L.Array(ts, 2)),
        L.Field("row", 5, row),
        L.Field("rows", 6, L.Array(row, 2)),
        L.Field("bs", 9, L.Array(L.Byte(), 3)),
        L.Field("e", 8, empty),
        L.Field("n", 10, inner),
        L.Field("flags", 11, L.Array(L.Bool(), 5)),
        L.Field("big", 255, L.Int(64)),
    ], nested=[nested_enum, inner])
    out.append(Unit("composite:nesting", L.Schema("t_nest", [e, ts, row, empty, c, b, a]), [empty, c, b, inner, a],
                    tags=("composite", "traditional")))
    # --- extensibility
    ix = L.Message("Ix", [L.Field("q", 1, L.Int(5))], ext=True)
    ex0 = L.Message("Ex0", [], ext=True)
    mx = L.Message("Mx", [
        L.Field("x", 1, L.Uint(3)),
        L.Field("inner", 2, ix),
        L.Field("arr", 3, L.Array(L.Byte(), 4, ext=True)),
        L.Field("t", 4, L.Uint(8)),
        L.Field("fl", 5, L.Array(L.Bool(), 8, ext=True)),
        L.Field("u", 6, L.Uint(8)),
        L.Field("ixs", 7, L.Array(ix, 2, ext=True)),
        L.Field("e0", 8, ex0),
        L.Field("w", 9, L.Int(11)),
    ], ext=True)
    out.append(Unit("composite:extensible", L.Schema("t_ext", [ix, ex0, mx]), [ix, ex0, mx], tags=("composite", "extensible")))
    # --- imports (with and without `as`), file name different from proto name
    shared_e = L.Enum("Kind", 4, [("KIND_NONE", 0), ("KIND_A", 9)])
    shared_m = L.Message("Point", [L.Field("x", 1, L.Int(12)), L.Field("y", 2, L.Int(12))])
    shared_a = L.Alias("Id", L.Uint(20))
    shared = L.Schema("shared", [shared_e, shared_a, shared_m])
    other_m = L.Message("Tag", [L.Field("v", 1, L.Uint(6))])
    other = L.Schema("other", [other_m])
    user = L.Message("User", [
        L.Field("p", 1, shared_m),
        L.Field("k", 2, shared_e),
        L.Field("id", 3, shared_a),
        L.Field("ps", 4, L.Array(shared_m, 2)),
        L.Field("tag", 5, other_m),
        L.Field("z", 6, L.Uint(3)),
    ])
    out.append(Unit("composite:imports", L.Schema("t_imp", [user], imports=[(shared, None), (other, "oth")]), [user],
                    tags=("composite", "imports", "traditional")))
    # --- same-named nested definitions in different messages, used in arrays of the same capacity (flattened names must differ)
    mode_a = L.Enum("Mode", 3, [("M_OFF", 0), ("M_ON", 5)])
    lim_a = L.Message("Limits", [L.Field("lo", 1, L.Int(5))])
    motor = L.Message("Motor", [L.Field("history", 1, L.Array(mode_a, 2)), L.Field("lims", 2, L.Array(lim_a, 2)), L.Field("cur", 3, mode_a)],
                      nested=[mode_a, lim_a])
    mode_b = L.Enum("Mode", 11, [("R_OFF", 0), ("R_FAST", 1441)])     # another storage width than Motor.Mode (uint8_t vs uint16_t)
    lim_b = L.Message("Limits", [L.Field("lo", 1, L.Int(11)), L.Field("hi", 2, L.Uint(9))])
    radio = L.Message("Radio", [L.Field("history", 1, L.Array(mode_b, 2)), L.Field("lims", 2, L.Array(lim_b, 2)), L.Field("cur", 3, mode_b)],
                      nested=[mode_b, lim_b])
    out.append(Unit("composite:same-named-nested", L.Schema("t_same", [motor, radio]), [motor, radio], tags=("composite", "traditional")))
    # --- an array field inside a message that is itself an array element (index stack depth 2 through a message boundary)
    sample = L.Message("Sample", [L.Field("vals", 1, L.Array(L.Uint(4), 3)), L.Field("z", 2, L.Int(5))])
    frame = L.Message("Frame", [L.Field("samples", 1, L.Array(sample, 2)), L.Field("tail", 2, L.Bool())])
    out.append(Unit("composite:array-in-array-element", L.Schema("t_aiae", [sample, frame]), [sample, frame], tags=("composite", "traditional")))
    # --- alias of an array of messages, used directly, as array element (2-D array of messages) and through a second alias
    cell = L.Message("Cell", [L.Field("a", 1, L.Uint(3)), L.Field("b", 2, L.Int(6))])
    row = L.Alias("Row", L.Array(cell, 2))
    table = L.Alias("Table", L.Array(row, 2))
    grid = L.Message("Grid", [L.Field("rows", 1, L.Array(row, 2)), L.Field("last", 2, row), L.Field("t", 3, L.Uint(2))])
    grid2 = L.Message("Grid2", [L.Field("tb", 1, table), L.Field("t", 2, L.Uint(2))])
    out.append(Unit("composite:alias-of-message-array", L.Schema("t_aoma", [cell, row, table, grid, grid2]), [grid, grid2],
                    tags=("composite", "traditional")))
    # --- importer and imported file declare the same names and carry different C name prefixes
    l_level = L.Enum("Level", 5, [("LEVEL_NONE", 0), ("LEVEL_HI", 17)])
    l_point = L.Message("Point", [L.Field("x", 1, L.Int(12)), L.Field("y", 2, L.Int(12))])
    plib = L.Schema("plib", [l_level, l_point], options=['c.name_prefix = "lib_"'])
    a_level = L.Enum("Level", 2, [("LEVEL_ZERO", 0), ("LEVEL_ONE", 1)])
    a_point = L.Message("Point", [L.Field("q", 1, L.Uint(3))])
    use = L.Message("Use", [L.Field("p", 1, l_point), L.Field("l", 2, l_level), L.Field("own", 3, a_point), L.Field("ol", 4, a_level),
                            L.Field("ps", 5, L.Array(l_point, 2)), L.Field("z", 6, L.Uint(4))])
    out.append(Unit("composite:prefixed-imports", L.Schema("t_pfx", [a_level, a_point, use], imports=[(plib, None)],
                                                             options=['c.name_prefix = "app_"']), [a_point, use],
                    tags=("composite", "imports", "traditional")))
    # --- sizes past one byte: capacity > 255, more than 16 fields, field numbers up to 255, a message longer than 256 bytes
    wide_fields = [L.Field("big", 1, L.Array(L.Uint(3), 300)), L.Field("raw", 2, L.Array(L.Byte(), 260))]
    for k in range(18):
        wide_fields.append(L.Field("f%d" % k, 10 + 13 * k if 10 + 13 * k <= 255 else 255 - k, [L.Uint(5), L.Bool(), L.Uint(12), L.Byte()][k % 4]))
    wide_fields.append(L.Field("last", 255, L.Uint(7)))
    wide = L.Message("Wide", wide_fields)
    out.append(Unit("composite:wide", L.Schema("t_wide", [wide]), [wide], tags=("composite", "traditional")))
    # --- three levels of nesting next to a shallower definition with the same inner names
    r_shallow = L.Message("Reading", [L.Field("v", 1, L.Uint(3))])
    cell_top = L.Message("Cell", [L.Field("r", 1, r_shallow), L.Field("k", 2, L.Uint(2))], nested=[r_shallow])
    r_deep = L.Message("Reading", [L.Field("w", 1, L.Int(7)), L.Field("z", 2, L.Uint(2))])
    cell_in = L.Message("Cell", [L.Field("r", 1, r_deep), L.Field("rs", 2, L.Array(r_deep, 2))], nested=[r_deep])
    pack = L.Message("Pack", [L.Field("c", 1, cell_in), L.Field("t", 2, L.Uint(4))], nested=[cell_in])
    top3 = L.Message("Top", [L.Field("p", 1, pack), L.Field("c", 2, cell_top), L.Field("e", 3, L.Bool())])
    out.append(Unit("composite:deep-same-names", L.Schema("t_deep", [cell_top, pack, top3]), [cell_top, pack, top3], tags=("composite", "traditional")))
    # --- long field names (the C JSON key is written by one formatted call)
    ln = L.Message("LongNames", [L.Field("a_field_name_that_is_forty_characters_xx", 1, L.Uint(9)),
                                 L.Field("b" * 64, 2, L.Int(7)), L.Field("brief", 3, L.Bool())])
    out.append(Unit("composite:long-names", L.Schema("t_long", [ln]), [ln], tags=("composite", "traditional")))
    # --- enum whose first member is not zero: Python's field default is the first member (known finding D14)
    nz = L.Enum("Nz", 3, [("NZ_A", 1), ("NZ_B", 2), ("NZ_C", 4)])
    dm = L.Message("D", [L.Field("h", 1, L.Uint(2)), L.Field("e", 2, nz), L.Field("es", 3, L.Array(nz, 2)),
                         L.Field("t", 4, L.Uint(3))])
    out.append(Unit("composite:enum-default-nonzero", L.Schema("t_enz", [nz, dm]), [dm], tags=("composite", "traditional")))
    return out


def evolution_pairs() -> List[Tuple[str, L.Schema, L.Message, L.Schema, L.Message, object]]:
    """(name, S1 schema, S1 message, S2 schema, S2 message, projection S2-value -> S1-value) for C05"""
    pairs = []
    # 1. append a field to an extensible message nested in a message, field after it
    ix1 = L.Message("Ix", [L.Field("q", 1, L.Int(5))], ext=True)
    m1 = L.Message("M", [L.Field("h", 1, L.Uint(3)), L.Field("inner", 2, ix1), L.Field("t", 3, L.Uint(8))])
    ix2 = L.Message("Ix", [L.Field("q", 1, L.Int(5)), L.Field("r", 2, L.Uint(9)), L.Field("s", 3, L.Bool())], ext=True)
    m2 = L.Message("M", [L.Field("h", 1, L.Uint(3)), L.Field("inner", 2, ix2), L.Field("t", 3, L.Uint(8))])
    pairs.append(("msg-append", L.Schema("ev1", [ix1, m1]), m1, L.Schema("ev1", [ix2, m2]), m2,
                  lambda v: {"h": v["h"], "inner": {"q": v["inner"]["q"]}, "t": v["t"]}))
    # 2. grow an extensible array (scalar elements), field after it
    a1 = L.Message("M", [L.Field("w", 1, L.Array(L.Byte(), 4, ext=True)), L.Field("t", 2, L.Uint(8)),
                         L.Field("fl", 3, L.Array(L.Bool(), 8, ext=True)), L.Field("u", 4, L.Uint(8))])
    a2 = L.Message("M", [L.Field("w", 1, L.Array(L.Byte(), 6, ext=True)), L.Field("t", 2, L.Uint(8)),
                         L.Field("fl", 3, L.Array(L.Bool(), 11, ext=True)), L.Field("u", 4, L.Uint(8))])
    pairs.append(("array-grow", L.Schema("ev2", [a1]), a1, L.Schema("ev2", [a2]), a2,
                  lambda v: {"w": v["w"][:4], "t": v["t"], "fl": v["fl"][:8], "u": v["u"]}))
    # 3. both steps at depth: extensible array of extensible messages, each extended; outer extensible message extended
    e1 = L.Message("El", [L.Field("a", 1, L.Uint(4))], ext=True)
    o1 = L.Message("O", [L.Field("els", 1, L.Array(e1, 2, ext=True)), L.Field("t", 2, L.Int(7))], ext=True)
    r1 = L.Message("R", [L.Field("o", 1, o1), L.Field("z", 2, L.Uint(6))])
    e2 = L.Message("El", [L.Field("a", 1, L.Uint(4)), L.Field("b", 2, L.Int(10))], ext=True)
    o2 = L.Message("O", [L.Field("els", 1, L.Array(e2, 3, ext=True)), L.Field("t", 2, L.Int(7)),
                         L.Field("extra", 3, L.Array(L.Uint(3), 2))], ext=True)
    r2 = L.Message("R", [L.Field("o", 1, o2), L.Field("z", 2, L.Uint(6))])
    pairs.append(("deep", L.Schema("ev3", [e1, o1, r1]), r1, L.Schema("ev3", [e2, o2, r2]), r2,
                  lambda v: {"o": {"els": [{"a": x["a"]} for x in v["o"]["els"][:2]], "t": v["o"]["t"]}, "z": v["z"]}))
    # 4. empty extensible placeholder filled in later
    p1 = L.Message("Res", [], ext=True)
    q1 = L.Message("M", [L.Field("a", 1, L.Uint(5)), L.Field("res", 2, p1), L.Field("b", 3, L.Uint(8))])
    p2 = L.Message("Res", [L.Field("n", 1, L.Uint(12))], ext=True)
    q2 = L.Message("M", [L.Field("a", 1, L.Uint(5)), L.Field("res", 2, p2), L.Field("b", 3, L.Uint(8))])
    pairs.append(("placeholder", L.Schema("ev4", [p1, q1]), q1, L.Schema("ev4", [p2, q2]), q2,
                  lambda v: {"a": v["a"], "res": {}, "b": v["b"]}))
    return pairs


def rewrite_variants() -> List[Tuple[str, L.Schema, L.Message, object]]:
    """C12: (variant name, schema, top message, value map base-value -> variant-value).  The first entry is the base."""
    def base_defs(names=None, field_order=None, def_order=None, inline_alias=False, unnest=False, numbers=None,
                  cap_text=None, imported=False, extra_alias=False):
        nm = names or {}
        n = lambda x: nm.get(x, x)
        num = numbers or {"id": 1, "mode": 2, "pos": 3, "samples": 4, "flag": 7, "tags": 9}
        mode = L.Enum(n("Mode"), 3, [(n("MODE_OFF"), 0), (n("MODE_ON"), 1), (n("MODE_AUTO"), 5)])
        ts = L.Alias(n("Sample"), L.Int(13))
        pos = L.Message(n("Pos"), [L.Field(n("x"), 1, L.Int(11)), L.Field(n("y"), 2, L.Int(11))])
        sample_t = L.Int(13) if inline_alias else ts
        idt = L.Alias(n("Ident"), L.Uint(10)) if extra_alias else L.Uint(10)
        fields = {
            "id": L.Field(n("id"), num["id"], idt),
            "mode": L.Field(n("mode"), num["mode"], mode),
            "pos": L.Field(n("pos"), num["pos"], pos),
            "samples": L.Field(n("samples"), num["samples"], L.Array(sample_t, 3, cap_text=cap_text)),
            "flag": L.Field(n("flag"), num["flag"], L.Bool()),
            "tags": L.Field(n("tags"), num["tags"], L.Array(L.Byte(), 2)),
        }
        order = field_order or ["id", "mode", "pos", "samples", "flag", "tags"]
        top = L.Message(n("Station"), [fields[k] for k in order], nested=[] if unnest else [pos])
        consts = [L.Const("TWO", "2", 2), L.Const("CAP", "TWO + 1", 3)] if cap_text else []
        shared = [d for d in ([mode] + ([] if inline_alias else [ts]) + ([idt] if extra_alias else []))]
        if imported:
            lib = L.Schema("rwlib", shared + ([pos] if unnest else []))
            return L.Schema("rw", consts + [top], imports=[(lib, None)]), top
        defs = consts + shared + ([pos] if unnest else []) + [top]
        if def_order:
            defs = consts + [shared[i] for i in def_order if i < len(shared)] + ([pos] if unnest else []) + [top]
        return L.Schema("rw", defs), top
    ident = lambda v: v
    out = []
    s, t = base_defs()
    out.append(("base", s, t, ident))
    ren = {"Mode": "Kind", "MODE_OFF": "KIND_A", "MODE_ON": "KIND_B", "MODE_AUTO": "KIND_C", "Sample": "Reading", "Pos": "Coord",
           "x": "east", "y": "north", "Station": "Node", "id": "ident", "mode": "kind", "pos": "coord", "samples": "readings",
           "flag": "ok", "tags": "labels"}
    s, t = base_defs(names=ren)
    out.append(("renamed", s, t, lambda v: {ren[k]: ({ren[kk]: vv for kk, vv in val.items()} if isinstance(val, dict) else val)
                                            for k, val in v.items()}))
    s, t = base_defs(field_order=["tags", "flag", "samples", "pos", "mode", "id"])
    out.append(("fields-reordered", s, t, ident))
    s, t = base_defs(def_order=[1, 0])
    out.append(("definitions-reordered", s, t, ident))
    s, t = base_defs(inline_alias=True)
    out.append(("alias-inlined", s, t, ident))
    s, t = base_defs(extra_alias=True)
    out.append(("alias-introduced", s, t, ident))
    s, t = base_defs(unnest=True)
    out.append(("unnested", s, t, ident))
    s, t = base_defs(imported=True)
    out.append(("moved-to-import", s, t, ident))
    s, t = base_defs()
    s.semi, s.comment = ";", True
    out.append(("comments-semicolons", s, t, ident))
    s, t = base_defs(cap_text="CAP")
    out.append(("constant-expression", s, t, ident))
    s, t = base_defs(numbers={"id": 2, "mode": 5, "pos": 6, "samples": 40, "flag": 41, "tags": 255})
    out.append(("renumbered", s, t, ident))
    return out


def units(tier: str) -> List[Unit]:
    us = [leaf_unit(t) for t in kind_tags(tier)]
    us += composite_units()
    return us
