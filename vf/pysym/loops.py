"""Run-time side of the loop cut (see loader.py)."""
from __future__ import annotations

from typing import Any, Callable, Dict, List, Optional, Tuple

import z3

from . import engine as E
from .proxies import SymInt, SymBool, wrap, lift


class LoopSpec:
    """Invariant / variant / havoc of one loop, provided by the side-car contract.

    inv(loc)      -> list of (label, z3 Bool)       loc = locals() of the function at the cut point
    variant(loc)  -> z3 arithmetic term or None
    havoc(name, loc) -> new value of the local `name` (default: fresh integer of the model in use;
                        names whose current value is not an integer are left alone)
    havoc_heap(loc)  -> havoc heap locations the loop may modify (default: nothing)
    """

    model = "bv"

    def inv(self, loc) -> List[Tuple[str, Any]]:
        raise NotImplementedError

    def variant(self, loc):
        return None

    def havoc(self, name, loc):
        cur = loc.get(name, None)
        if isinstance(cur, (int, SymInt)) and not isinstance(cur, bool):
            return wrap(E.cur().fresh(name, self.model))
        if name not in loc:
            return _Undefined(name)
        return cur

    def havoc_heap(self, loc) -> None:
        pass

    # sequence protocol for `for x in seq` loops (default: concrete python list)
    def seq(self, it):
        return list(it)

    def seq_len(self, s):
        return len(s)

    def seq_get(self, s, i):
        return s[i]

    def range_bound(self, b):
        return b


class _Undefined:
    """A local that is first assigned inside the loop body; any use before assignment is an engine error."""

    def __init__(self, name):
        self.name = name

    def __getattr__(self, a):
        raise E.Unsupported("local %r read before assignment after loop cut" % self.name)


class LoopVC:
    def __init__(self, specs: Dict[str, LoopSpec]):
        self.specs = specs
        self.v0: Dict[str, Any] = {}

    def loop_entry(self, lid, loc):
        for label, g in self.specs[lid].inv(loc):
            E.cur().oblige("%s/inv-entry#%s" % (lid, label), g, kind="inv-entry")

    def havoc(self, lid, name, loc):
        return self.specs[lid].havoc(name, loc)

    def loop_head(self, lid, loc):
        sp = self.specs[lid]
        sp.havoc_heap(loc)
        for label, g in sp.inv(loc):
            E.cur().assume(g)
        v = sp.variant(loc)
        self.v0[lid] = v
        E.cur().cover("%s/inv-and-guard" % lid) if False else None

    def loop_back(self, lid, loc):
        sp = self.specs[lid]
        E.cur().cover("%s/body-reachable" % lid)
        for label, g in sp.inv(loc):
            E.cur().oblige("%s/inv-preserve#%s" % (lid, label), g, kind="inv-preserve")
        v0 = self.v0.get(lid)
        if v0 is not None:
            v1 = sp.variant(loc)
            E.cur().oblige("%s/variant" % lid, z3.And(v0 >= 0, v1 < v0) if not z3.is_bv(v0) else z3.And(v0 >= 0, v1 < v0),
                           kind="variant")
        raise E.StopPath()

    def loop_exit(self, lid, loc):
        pass

    def seq(self, lid, it):
        return self.specs[lid].seq(it)

    def seq_len(self, s):
        return s.sym_len() if hasattr(s, "sym_len") else len(s)

    def seq_get(self, s, i):
        return s.sym_get(i) if hasattr(s, "sym_get") else s[i]

    def range_bound(self, lid, b):
        return self.specs[lid].range_bound(b)
