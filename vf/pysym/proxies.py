"""Solver-backed proxy values for executing real Python code under CPython.

Two integer models, chosen by the sort of the wrapped term:
  * BitVec(BVW)  - for bit-twiddling code; + - * << unary- carry `no-overflow`
    obligations, shift counts a range obligation, so when those discharge the
    model coincides with Python's unbounded ints.
  * Int          - for structural code (products k*w); bit operations are
    unsupported there.
Operations whose result is a numeral return a plain Python int.
"""
from __future__ import annotations

import builtins
from typing import Any

import z3

from . import engine as E
from .engine import BVW, Unsupported


def is_sym(x) -> bool:
    return isinstance(x, (SymInt, SymBool))


def _num(t):
    """Python int for a numeral term, else None."""
    if z3.is_bv_value(t):
        return t.as_signed_long()
    if z3.is_int_value(t):
        return t.as_long()
    return None


def wrap(t):
    """Term -> SymInt, or a plain int when the term is a numeral."""
    if z3.is_bool(t):
        t = z3.simplify(t)
        if z3.is_true(t):
            return True
        if z3.is_false(t):
            return False
        return SymBool(t)
    t = z3.simplify(t)
    n = _num(t)
    if n is not None:
        return n
    return SymInt(t)


def lift(x, like=None):
    """Python value or proxy -> z3 term of the sort of `like` (a term) / BV by default."""
    if isinstance(x, SymInt):
        if like is not None and x.t.sort() != like.sort():
            raise Unsupported("mixing Int and BitVec terms")
        return x.t
    if isinstance(x, SymBool):
        one_zero = (z3.BitVecVal(1, BVW), z3.BitVecVal(0, BVW)) if (like is None or z3.is_bv(like)) else (z3.IntVal(1), z3.IntVal(0))
        return z3.If(x.t, *one_zero)
    if isinstance(x, (bool, int)):
        if like is not None and z3.is_int(like):
            return z3.IntVal(int(x))
        return z3.BitVecVal(int(x), BVW)
    raise Unsupported("cannot lift %r" % type(x))


def lift_bool(x):
    if isinstance(x, SymBool):
        return x.t
    if isinstance(x, bool):
        return z3.BoolVal(x)
    if isinstance(x, SymInt):
        return x.t != lift(0, x.t)
    if isinstance(x, int):
        return z3.BoolVal(x != 0)
    if z3.is_expr(x) and z3.is_bool(x):
        return x
    raise Unsupported("cannot lift %r to Bool" % type(x))


class SymBool:
    __slots__ = ("t",)

    def __init__(self, t):
        self.t = t

    def __bool__(self):
        return E.cur().branch(self.t)

    # int-like behaviour of Python bools
    def __int__(self):
        raise Unsupported("int() of a symbolic bool must go through the shadowed int")

    def __and__(self, o):
        return wrap(z3.And(self.t, lift_bool(o)))
    __rand__ = __and__

    def __or__(self, o):
        return wrap(z3.Or(self.t, lift_bool(o)))
    __ror__ = __or__

    def __invert__(self):
        return wrap(z3.Not(self.t))

    def __eq__(self, o):
        if isinstance(o, (SymBool, bool)):
            return wrap(self.t == lift_bool(o))
        if isinstance(o, (SymInt, int)):
            return SymInt(lift(self)).__eq__(o)
        return NotImplemented

    def __ne__(self, o):
        r = self.__eq__(o)
        if r is NotImplemented:
            return r
        return wrap(z3.Not(lift_bool(r)))

    __hash__ = None  # type: ignore

    def __rshift__(self, o):
        return SymInt(lift(self)) >> o

    def __lshift__(self, o):
        return SymInt(lift(self)) << o

    def __repr__(self):
        return "SymBool(%s)" % self.t


def _bvconst(n):
    return z3.BitVecVal(n, BVW)


class SymInt:
    __slots__ = ("t",)

    def __init__(self, t):
        self.t = t

    # -- helpers
    def _isbv(self):
        return z3.is_bv(self.t)

    def __repr__(self):
        return "SymInt(%s)" % self.t

    __hash__ = None  # type: ignore

    def __index__(self):
        raise Unsupported("symbolic integer used where CPython needs a machine int (index/range/len)")

    # decimal rendering: a marker string standing for  str.from_int(term)  (str()/format() of an int are external:
    # assumed to give the decimal numeral).  A non-empty format spec is part of the marker.
    def __str__(self):
        return sym_str_marker(self.t, "")

    def __format__(self, spec):
        return sym_str_marker(self.t, spec)

    def __int__(self):
        raise Unsupported("int() of a symbolic integer must go through the shadowed int")

    def __bool__(self):
        return E.cur().branch(self.t != lift(0, self.t))

    # -- arithmetic
    def __add__(self, o):
        if not isinstance(o, (SymInt, SymBool, int)):
            return NotImplemented
        a, b = self.t, lift(o, self.t)
        if self._isbv():
            E.cur().side("no-overflow", z3.And(z3.BVAddNoOverflow(a, b, True), z3.BVAddNoUnderflow(a, b)), "add")
        return wrap(a + b)

    def __radd__(self, o):
        return self.__add__(o)

    def __sub__(self, o):
        if not isinstance(o, (SymInt, SymBool, int)):
            return NotImplemented
        a, b = self.t, lift(o, self.t)
        if self._isbv():
            E.cur().side("no-overflow", z3.And(z3.BVSubNoOverflow(a, b), z3.BVSubNoUnderflow(a, b, True)), "sub")
        return wrap(a - b)

    def __rsub__(self, o):
        if not isinstance(o, (SymInt, SymBool, int)):
            return NotImplemented
        a, b = lift(o, self.t), self.t
        if self._isbv():
            E.cur().side("no-overflow", z3.And(z3.BVSubNoOverflow(a, b), z3.BVSubNoUnderflow(a, b, True)), "sub")
        return wrap(a - b)

    def __mul__(self, o):
        if not isinstance(o, (SymInt, SymBool, int)):
            return NotImplemented
        a, b = self.t, lift(o, self.t)
        if self._isbv():
            E.cur().side("no-overflow", z3.And(z3.BVMulNoOverflow(a, b, True), z3.BVMulNoUnderflow(a, b)), "mul")
        return wrap(a * b)

    def __rmul__(self, o):
        return self.__mul__(o)

    def __neg__(self):
        if self._isbv():
            E.cur().side("no-overflow", z3.BVSNegNoOverflow(self.t), "neg")
        return wrap(-self.t)

    def __pos__(self):
        return self

    def __abs__(self):
        return wrap(lift(sym_abs(self), self.t))

    # floor division / modulo (Python semantics, any sign); divisor != 0 is a no-exception obligation
    def _divmod(self, a, b):
        if z3.is_bv(a):
            E.cur().side("no-exception", b != 0, "ZeroDivisionError")
            E.cur().side("no-overflow", z3.Not(z3.And(a == _bvconst(-(1 << (BVW - 1))), b == _bvconst(-1))), "div")
            q = a / b           # signed, truncating
            r = z3.SRem(a, b)   # sign follows dividend
            adj = z3.And(r != 0, (r < 0) != (b < 0))
            return z3.If(adj, q - 1, q), z3.If(adj, r + b, r)
        E.cur().side("no-exception", b != 0, "ZeroDivisionError")
        return _floor_q(a, b), _floor_r(a, b)

    def __floordiv__(self, o):
        if not isinstance(o, (SymInt, SymBool, int)):
            return NotImplemented
        return wrap(self._divmod(self.t, lift(o, self.t))[0])

    def __rfloordiv__(self, o):
        if not isinstance(o, (SymInt, SymBool, int)):
            return NotImplemented
        return wrap(self._divmod(lift(o, self.t), self.t)[0])

    def __mod__(self, o):
        if not isinstance(o, (SymInt, SymBool, int)):
            return NotImplemented
        return wrap(self._divmod(self.t, lift(o, self.t))[1])

    def __rmod__(self, o):
        if not isinstance(o, (SymInt, SymBool, int)):
            return NotImplemented
        return wrap(self._divmod(lift(o, self.t), self.t)[1])

    def __truediv__(self, o):
        return SymRatio(self, o)

    def __rtruediv__(self, o):
        return SymRatio(o, self)

    # -- bit operations (bit-vector model only)
    def _bits(self, o, f):
        if not isinstance(o, (SymInt, SymBool, int)):
            return NotImplemented
        if not self._isbv():
            raise Unsupported("bit operation in the Int model")
        return wrap(f(self.t, lift(o, self.t)))

    def __and__(self, o):
        return self._bits(o, lambda a, b: a & b)
    __rand__ = __and__

    def __or__(self, o):
        return self._bits(o, lambda a, b: a | b)
    __ror__ = __or__

    def __xor__(self, o):
        return self._bits(o, lambda a, b: a ^ b)
    __rxor__ = __xor__

    def __invert__(self):
        if not self._isbv():
            raise Unsupported("bit operation in the Int model")
        return wrap(~self.t)

    def __rshift__(self, o):
        return _shift_r(self, o)

    def __rrshift__(self, o):
        return _shift_r(o, self)

    def __lshift__(self, o):
        return _shift_l(self, o)

    def __rlshift__(self, o):
        return _shift_l(o, self)

    # -- comparisons
    def _cmp(self, o, f):
        if not isinstance(o, (SymInt, SymBool, int)):
            return NotImplemented
        return wrap(f(self.t, lift(o, self.t)))

    def __lt__(self, o):
        return self._cmp(o, lambda a, b: a < b)

    def __le__(self, o):
        return self._cmp(o, lambda a, b: a <= b)

    def __gt__(self, o):
        return self._cmp(o, lambda a, b: a > b)

    def __ge__(self, o):
        return self._cmp(o, lambda a, b: a >= b)

    def __eq__(self, o):
        if not isinstance(o, (SymInt, SymBool, int)):
            return False if o is None or isinstance(o, (str, bytes, tuple, list, dict)) else NotImplemented
        return wrap(self.t == lift(o, self.t))

    def __ne__(self, o):
        if not isinstance(o, (SymInt, SymBool, int)):
            return True if o is None or isinstance(o, (str, bytes, tuple, list, dict)) else NotImplemented
        return wrap(self.t != lift(o, self.t))

    def bit_length(self):
        """Python int.bit_length for a non-negative bit-vector value (obligation: value >= 0)."""
        if not self._isbv():
            raise Unsupported("bit_length in the Int model")
        E.cur().side("supported", self.t >= 0, "bit_length of a non-negative value")
        r = _bvconst(0)
        for n in range(BVW - 2, -1, -1):
            r = z3.If(z3.Extract(n, n, self.t) == 1, z3.If(r == 0, _bvconst(n + 1), r), r)
        return wrap(r)


SYM_STR = {}


def sym_str_marker(t, spec=""):
    key = "\u27e8int#%d%s\u27e9" % (t.get_id(), (":" + spec) if spec else "")
    SYM_STR[key] = (t, spec)
    return key


def _floor_q(a, b):
    # floor(a/b) from z3's Euclidean div:  a = b*q + r, 0 <= r < |b|
    q, r = a / b, a % b
    return z3.If(b > 0, q, z3.If(r == 0, q, q - 1))


def _floor_r(a, b):
    r = a % b
    return z3.If(b > 0, r, z3.If(r == 0, r, r + b))


def _shift_r(x, o):
    if not isinstance(o, (SymInt, SymBool, int)) or not isinstance(x, (SymInt, SymBool, int)):
        return NotImplemented
    a, b = lift(x), lift(o)
    if not z3.is_bv(a):
        raise Unsupported("shift in the Int model")
    E.cur().side("no-exception", b >= 0, "negative shift count")
    # count >= BVW: arithmetic shift fills with the sign, which is Python's result for in-range a
    bb = z3.If(b >= BVW, _bvconst(BVW - 1), b)
    return wrap(a >> bb)


def _shift_l(x, o):
    if not isinstance(o, (SymInt, SymBool, int)) or not isinstance(x, (SymInt, SymBool, int)):
        return NotImplemented
    a, b = lift(x), lift(o)
    if not z3.is_bv(a):
        raise Unsupported("shift in the Int model")
    E.cur().side("no-exception", b >= 0, "negative shift count")
    r = a << b
    E.cur().side("no-overflow", z3.Or(a == 0, z3.And(b < BVW, (r >> b) == a)), "shl")
    return wrap(r)


class SymRatio:
    """a / b  (true division).  Only int(a / 2^k) is supported, under 0 <= a < 2^53 (exact in binary64)."""

    def __init__(self, a, b):
        self.a, self.b = a, b


# ------------------------------------------------------------------ shadowed builtins
def sym_int(x=0, *a):
    if isinstance(x, SymRatio) and not (isinstance(x.b, int) and x.b > 0 and (x.b & (x.b - 1)) == 0):
        # general int(a / b): binary64 division followed by truncation toward zero.  It equals the exact truncated quotient
        # only while both operands are exactly representable and the quotient cannot round across an integer: obligation
        # |a|, |b| < 2^53 (kind float-exact); division by zero is ZeroDivisionError.
        a = x.a if isinstance(x.a, SymInt) else SymInt(lift(x.a, x.b.t if isinstance(x.b, SymInt) else None))
        bt = lift(x.b, a.t)
        at = a.t
        lim = lift(1 << 53, at)
        E.cur().side("no-exception", bt != 0, "ZeroDivisionError")
        E.cur().side("float-exact", z3.And(at > -lim, at < lim, bt > -lim, bt < lim), "int(a / b) through binary64 needs |a|, |b| < 2^53")
        if z3.is_bv(at):
            return wrap(at / bt)          # signed bit-vector division truncates toward zero
        q = z3.If(at >= 0, z3.If(bt > 0, at / bt, -(at / -bt)), z3.If(bt > 0, -((-at) / bt), (-at) / (-bt)))
        return wrap(q)
    if isinstance(x, SymRatio):
        if not isinstance(x.a, SymInt):
            return builtins.int(x.a / x.b)
        at = x.a.t
        E.cur().side("float-exact", z3.And(at >= 0, at < (1 << 53)), "int(a/2^k) needs 0 <= a < 2^53")
        if z3.is_bv(at):
            return wrap(z3.UDiv(at, lift(x.b, at)))
        return wrap(at / lift(x.b, at))
    if isinstance(x, SymInt):
        return x
    if isinstance(x, SymBool):
        return wrap(lift(x))
    return builtins.int(x, *a)


def sym_bool(x=False):
    if isinstance(x, SymInt):
        return wrap(x.t != lift(0, x.t))
    if isinstance(x, SymBool):
        return x
    return builtins.bool(x)


def _ite(c, a, b):
    like = a.t if isinstance(a, SymInt) else (b.t if isinstance(b, SymInt) else None)
    return wrap(z3.If(c, lift(a, like), lift(b, like)))


def sym_min(*xs, **kw):
    if len(xs) == 1:
        xs = tuple(xs[0])
    if kw or not any(is_sym(x) for x in xs):
        return builtins.min(*xs, **kw)
    r = xs[0]
    for x in xs[1:]:
        if is_sym(r) or is_sym(x):
            like = r.t if isinstance(r, SymInt) else (x.t if isinstance(x, SymInt) else None)
            r = _ite(lift(x, like) < lift(r, like), x, r)
        else:
            r = builtins.min(r, x)
    return r


def sym_max(*xs, **kw):
    if len(xs) == 1:
        xs = tuple(xs[0])
    if kw or not any(is_sym(x) for x in xs):
        return builtins.max(*xs, **kw)
    r = xs[0]
    for x in xs[1:]:
        if is_sym(r) or is_sym(x):
            like = r.t if isinstance(r, SymInt) else (x.t if isinstance(x, SymInt) else None)
            r = _ite(lift(x, like) > lift(r, like), x, r)
        else:
            r = builtins.max(r, x)
    return r


def sym_abs(x):
    if isinstance(x, SymInt):
        if x._isbv():
            E.cur().side("no-overflow", z3.BVSNegNoOverflow(x.t), "abs")
        return wrap(z3.If(x.t < 0, -x.t, x.t))
    return builtins.abs(x)


def sym_len(x):
    if hasattr(x, "sym_len"):
        return x.sym_len()
    return builtins.len(x)


def sym_isinstance(x, cls):
    # the shadowed names `int` / `bool` are functions: map them back to the types they stand for
    if isinstance(cls, tuple):
        cls = tuple({sym_int: int, sym_bool: bool}.get(c, c) if callable(c) and not isinstance(c, type) else c for c in cls)
    elif cls is sym_int:
        cls = int
    elif cls is sym_bool:
        cls = bool
    if isinstance(x, SymInt):
        cl = cls if isinstance(cls, tuple) else (cls,)
        return any(c is int or c is object for c in cl)
    if isinstance(x, SymBool):
        cl = cls if isinstance(cls, tuple) else (cls,)
        return any(c in (bool, int, object) for c in cl)
    return builtins.isinstance(x, cls)


# ------------------------------------------------------------------ byte buffers
class SymBytes:
    """bytearray of symbolic length and contents:  z3 Array(BV -> BV8) + length term."""

    def __init__(self, name: str, length=None):
        self.a = z3.Array(name, z3.BitVecSort(BVW), z3.BitVecSort(8))
        self.n = z3.BitVec(name + "_len", BVW) if length is None else length
        self.writes = 0

    def _idx(self, i):
        it = lift(i)
        E.cur().side("index-in-range", z3.And(it >= 0, it < self.n), "bytearray index")
        return it

    def __getitem__(self, i):
        if isinstance(i, slice):
            raise Unsupported("slice of a symbolic bytearray")
        return wrap(z3.ZeroExt(BVW - 8, self.a[self._idx(i)]))

    def __setitem__(self, i, v):
        it = self._idx(i)
        vt = lift(v)
        E.cur().side("byte-range", z3.And(vt >= 0, vt <= 255), "bytearray value")
        self.a = z3.Store(self.a, it, z3.Extract(7, 0, vt))
        self.writes += 1

    def sym_len(self):
        return wrap(self.n)

    def __len__(self):
        raise Unsupported("len() of a symbolic bytearray must go through the shadowed len")


class CBytes:
    """bytearray of concrete length whose elements may be symbolic (per-program runs)."""

    def __init__(self, n=0):
        if isinstance(n, int):
            self.v = [0] * n
        else:
            self.v = list(n)
        self.reads = set()
        self.writes = set()

    def __len__(self):
        return len(self.v)

    def sym_len(self):
        return len(self.v)

    def __iter__(self):
        return iter(self.v)

    def __eq__(self, o):
        raise Unsupported("comparison of CBytes")

    __hash__ = None  # type: ignore

    def __getitem__(self, i):
        if isinstance(i, (SymInt, slice)):
            raise Unsupported("symbolic index / slice into a concrete-length buffer")
        if not (0 <= i < len(self.v)):
            # strict: negative indices are legal Python but never what an encoder means
            E.cur().side("index-in-range", z3.BoolVal(False), "bytearray index %d of %d" % (i, len(self.v)))
            raise E.StopPath()
        self.reads.add(i)
        return self.v[i]

    def __setitem__(self, i, x):
        if isinstance(i, (SymInt, slice)):
            raise Unsupported("symbolic index / slice into a concrete-length buffer")
        if not (0 <= i < len(self.v)):
            E.cur().side("index-in-range", z3.BoolVal(False), "bytearray index %d of %d" % (i, len(self.v)))
            raise E.StopPath()
        if isinstance(x, (SymInt, SymBool)):
            xt = lift(x)
            E.cur().side("byte-range", z3.And(xt >= 0, xt <= 255), "bytearray value")
            x = wrap(xt)
        elif not (0 <= x <= 255):
            E.cur().side("byte-range", z3.BoolVal(False), "bytearray value %r" % (x,))
            raise E.StopPath()
        self.writes.add(i)
        self.v[i] = x
