"""Load real repository source into a fresh module object, optionally
 (a) shadowing builtins through the module globals, and
 (b) cutting annotated loops by a mechanical AST rewrite (the only transformation).

Loop cut of   while COND: BODY   in function F, ordinal n  (for-loops are first
put in explicit index form):

    vc_.loop_entry(ID, locals())                 # obligation: invariant holds on entry
    NAME = vc_.havoc(ID, 'NAME', NAME) ...       # every name assigned in BODY
    vc_.loop_head(ID, locals())                  # havoc heap per `modifies`, assume invariant, record variant
    if COND:
        BODY
        vc_.loop_back(ID, locals())              # obligations: invariant preserved, variant decreased; StopPath
    # fallthrough: invariant /\\ not COND

`vc_` is injected in the module globals (names starting with two underscores
would be mangled inside classes).
"""
from __future__ import annotations

import ast
import hashlib
import os
import types
from typing import Dict, Optional, Tuple

REPO = os.environ.get("VERIF_REPO", "/repo")


def read_src(relpath: str) -> str:
    with open(os.path.join(REPO, relpath), "r") as f:
        return f.read()


def func_source(src: str, qualname: str) -> Tuple[str, int]:
    """Source text and first line of a (possibly nested-in-class) function. Raises KeyError if absent."""
    tree = ast.parse(src)
    parts = qualname.split(".")
    node = tree
    for p in parts:
        for ch in ast.iter_child_nodes(node):
            if isinstance(ch, (ast.FunctionDef, ast.ClassDef, ast.AsyncFunctionDef)) and ch.name == p:
                node = ch
                break
            if isinstance(ch, (ast.Assign, ast.AnnAssign)):     # module / class level constant
                tg = ch.targets if isinstance(ch, ast.Assign) else [ch.target]
                if any(isinstance(t, ast.Name) and t.id == p for t in tg):
                    node = ch
                    break
        else:
            raise KeyError(qualname)
    seg = ast.get_source_segment(src, node) or ""
    return seg, node.lineno


def func_sha(src: str, qualname: str) -> str:
    return hashlib.sha256(func_source(src, qualname)[0].encode()).hexdigest()[:16]


class _Cut(ast.NodeTransformer):
    def __init__(self, cuts: Dict[Tuple[str, int], str]):
        self.cuts = cuts
        self.stack = []
        self.counter = {}
        self.done = {}

    def _qual(self):
        return ".".join(self.stack)

    def visit_ClassDef(self, n):
        self.stack.append(n.name)
        self.generic_visit(n)
        self.stack.pop()
        return n

    def visit_FunctionDef(self, n):
        self.stack.append(n.name)
        self.counter[self._qual()] = 0
        self.generic_visit(n)
        self.stack.pop()
        return n

    def _loop(self, n):
        q = self._qual()
        self.counter[q] = self.counter.get(q, 0) + 1
        ordinal = self.counter[q]
        key = (q, ordinal)
        self.generic_visit(n)
        if key not in self.cuts:
            return n
        lid = self.cuts[key]
        pre = []
        if isinstance(n, ast.For):
            if n.orelse:
                raise SyntaxError("for-else loop cannot be cut")
            tgt = ast.unparse(n.target)
            it = ast.unparse(n.iter)
            idx = "vc_i%d_" % ordinal
            seq = "vc_s%d_" % ordinal
            if isinstance(n.iter, ast.Call) and isinstance(n.iter.func, ast.Name) and n.iter.func.id == "range" \
                    and len(n.iter.args) == 1:
                pre = ast.parse("%s = vc_.range_bound(%r, %s)\n%s = 0" % (seq, lid, ast.unparse(n.iter.args[0]), idx)).body
                cond = ast.parse("%s < %s" % (idx, seq), mode="eval").body
                head = ast.parse("%s = %s" % (tgt, idx)).body
            else:
                pre = ast.parse("%s = vc_.seq(%r, %s)\n%s = 0" % (seq, lid, it, idx)).body
                cond = ast.parse("%s < vc_.seq_len(%s)" % (idx, seq), mode="eval").body
                head = ast.parse("%s = vc_.seq_get(%s, %s)" % (tgt, seq, idx)).body
            tail = ast.parse("%s = %s + 1" % (idx, idx)).body
            body = head + n.body + tail
        else:
            if n.orelse:
                raise SyntaxError("while-else loop cannot be cut")
            cond = n.test
            body = list(n.body)
        for sub in ast.walk(ast.Module(body=body, type_ignores=[])):
            if isinstance(sub, (ast.Break, ast.Continue)):
                raise SyntaxError("break/continue inside a cut loop is not supported")
        assigned = sorted(_assigned_names(body))
        out = list(pre)
        out += ast.parse("vc_.loop_entry(%r, locals())" % lid).body
        for nm in assigned:
            out += ast.parse("%s = vc_.havoc(%r, %r, locals())" % (nm, lid, nm)).body
        out += ast.parse("vc_.loop_head(%r, locals())" % lid).body
        iff = ast.If(test=cond, body=body + ast.parse("vc_.loop_back(%r, locals())" % lid).body, orelse=[])
        out.append(iff)
        out += ast.parse("vc_.loop_exit(%r, locals())" % lid).body
        self.done[key] = dict(id=lid, line=n.lineno, assigned=assigned,
                              sha=hashlib.sha256(ast.unparse(n).encode()).hexdigest()[:16])
        for o in out:
            ast.copy_location(o, n)
        return out

    visit_For = _loop
    visit_While = _loop


def _assigned_names(body):
    names = set()
    for stmt in body:
        for sub in ast.walk(stmt):
            if isinstance(sub, (ast.FunctionDef, ast.Lambda, ast.ClassDef)):
                continue
            if isinstance(sub, ast.Name) and isinstance(sub.ctx, ast.Store):
                names.add(sub.id)
    return names


def load(relpath: str, modname: str, shadows: Optional[dict] = None,
         cuts: Optional[Dict[Tuple[str, int], str]] = None, vc=None, package: Optional[str] = None,
         extra_globals: Optional[dict] = None):
    """exec the repository file `relpath` into a fresh module. Returns (module, cut_info)."""
    path = os.path.join(REPO, relpath)
    src = read_src(relpath)
    tree = ast.parse(src, filename=path)
    info = {}
    if cuts:
        c = _Cut(cuts)
        tree = ast.fix_missing_locations(c.visit(tree))
        missing = set(cuts) - set(c.done)
        if missing:
            raise KeyError("loops to cut not found: %r" % sorted(missing))
        info = {"%s#%d" % k: v for k, v in c.done.items()}
    mod = types.ModuleType(modname)
    mod.__file__ = path
    if package is not None:
        mod.__package__ = package
    if shadows:
        mod.__dict__.update(shadows)
    if extra_globals:
        mod.__dict__.update(extra_globals)
    if vc is not None:
        mod.__dict__["vc_"] = vc
    import sys
    sys.modules[modname] = mod          # dataclasses look the defining module up by name
    exec(compile(tree, path, "exec"), mod.__dict__)
    return mod, info
