"""pysym engine: path exploration by re-execution, obligation collection.

The real source is executed by CPython.  Symbolic integers are proxies
(proxies.py) that call back into the *current engine* for branching and for
side obligations.  One Engine instance = one proof (one function under one
contract variant).
"""
from __future__ import annotations

import sys
from typing import Any, Callable, Dict, List, Optional

import z3

from ..core import obl as _obl
from ..core.obl import Obligation

CUR: Optional["Engine"] = None

BVW = 128  # width of the bit-vector model of Python ints (every arithmetic op carries a no-overflow obligation)


class StopPath(BaseException):
    """Ends the current path (loop cut back-edge, or a path that ended in a contract-allowed raise)."""


class Unsupported(Exception):
    """Construct outside the engine's modelled semantics -> checker error (exit 3), never a verdict."""


class Engine:
    def __init__(self, proof_id: str, func: str, where: str, props: List[str], scope: str = "generic",
                 srcfile: Optional[str] = None, max_paths: int = 4000):
        self.proof_id = proof_id
        self.func = func
        self.where = where
        self.props = props
        self.scope = scope
        self.srcfile = srcfile          # repo file whose line numbers label side obligations
        self.obls: List[Obligation] = []
        self.pc: List[Any] = []
        self.light: List[Any] = []      # quantifier-free part of pc (branch feasibility)
        self.dec: List[tuple] = []
        self.pos = 0
        self.fresh_n = 0
        self.paths = 0
        self.completed_paths = 0
        self.max_paths = max_paths
        self.labels_seen: Dict[str, int] = {}
        self.side_counter: Dict[str, int] = {}
        self.finding_ctx: Optional[str] = None
        self.notes: List[str] = []
        self.keep_terms = False     # path conditions keep the terms as the code built them (no simplifier normal forms)
        self.cover_qf = False       # covers checked against the quantifier-free part of the path condition only
        self.cur_props: Optional[List[str]] = None   # property tags of the obligations being generated (default: self.props)
        self.concrete: Optional[dict] = None   # replay mode: name -> z3 value taken from a counter-model

    # ------------------------------------------------------------------ paths
    def path_tag(self) -> str:
        return "".join("T" if d else "F" for k, d in self.dec[: self.pos] if k == "fork") or "-"

    def explore(self, run: Callable[[], None]) -> None:
        """Run `run()` once per feasible path (depth-first, decision-prefix re-execution)."""
        global CUR
        todo: List[List[tuple]] = [[]]
        while todo:
            prefix = todo.pop()
            self.pc, self.light = [], []
            self.dec, self.pos = list(prefix), 0
            self.fresh_n = 0
            self.run_n = 0              # per-path counter of per-program runs (unique value names, see genc._vname)
            self.side_counter = {}
            self.paths += 1
            if self.paths > self.max_paths:
                raise Unsupported("path budget exceeded in %s" % self.proof_id)
            prev, CUR = CUR, self
            try:
                run()
                self.completed_paths += 1
            except StopPath:
                self.completed_paths += 1
            finally:
                CUR = prev
            for n in range(len(prefix), len(self.dec)):
                kind, d = self.dec[n]
                if kind == "fork" and d is True:
                    todo.append(self.dec[:n] + [("fork", False)])

    def branch(self, cond) -> bool:
        cs = z3.simplify(cond)
        if z3.is_true(cs):
            return True
        if z3.is_false(cs):
            return False
        if self.pos < len(self.dec):
            d = self.dec[self.pos][1]
        else:
            s = z3.Solver()
            s.set("timeout", 10000)
            s.add(*self.light)
            t = s.check(cs) != z3.unsat
            f = s.check(z3.Not(cs)) != z3.unsat
            if t and f:
                kind, d = "fork", True
            elif t:
                kind, d = "forced", True
            elif f:
                kind, d = "forced", False
            else:  # infeasible path prefix: stop silently
                raise StopPath()
            self.dec.append((kind, d))
        self.pos += 1
        base = cond if self.keep_terms else cs
        c = base if d else z3.Not(base)
        self.pc.append(c)
        self.light.append(c)
        return d

    # ------------------------------------------------------------ assumptions
    def assume(self, cond, heavy: bool = False) -> None:
        if isinstance(cond, bool):
            cond = z3.BoolVal(cond)
        self.pc.append(cond)
        if not heavy and not _has_quant(cond):
            self.light.append(cond)

    def fresh(self, name: str, sort=None):
        self.fresh_n += 1
        nm = "%s!%d" % (name, self.fresh_n)
        if self.concrete is not None:      # replay: the counter-model's value (don't-care inputs: 0 / false)
            if nm in self.concrete:
                return self.concrete[nm]
            if sort is None or (isinstance(sort, str) and sort == "bv"):
                return z3.BitVecVal(0, BVW)
            if isinstance(sort, str) and sort == "int":
                return z3.IntVal(0)
            if isinstance(sort, str) and sort == "bool":
                return z3.BoolVal(False)
        if sort is None or (isinstance(sort, str) and sort == "bv"):
            return z3.BitVec(nm, BVW)
        if isinstance(sort, str) and sort == "int":
            return z3.Int(nm)
        if isinstance(sort, str) and sort == "bool":
            return z3.Bool(nm)
        return z3.Const(nm, sort)

    # ------------------------------------------------------------ obligations
    def oblige(self, label: str, goal, kind: str = "post", finding: Optional[str] = None,
               expect: str = "valid", meta: Optional[dict] = None, timeout_s: float = 0.0,
               props: Optional[List[str]] = None, qf: bool = False, pruned_extra: Optional[list] = None) -> None:
        if isinstance(goal, bool):
            goal = z3.BoolVal(goal)
        self.labels_seen[label] = self.labels_seen.get(label, 0) + 1
        oid = "%s/%s[%s]" % (self.proof_id, label, self.path_tag())
        n = self.side_counter.get(oid, 0)
        self.side_counter[oid] = n + 1
        if n:
            oid += "#%d" % n
        # qf=True: a quantifier-free goal that needs only the quantifier-free part of the path condition (sound: fewer hypotheses)
        # pruned_extra: instances of quantified hypotheses; the obligation is first tried with light pc + these instances only
        o = _obl.make(oid, kind, self.func, self.where, self.light if qf else self.pc, goal, expect=expect, scope=self.scope,
                      pruned_pc=(self.light + list(pruned_extra)) if pruned_extra is not None else None,
                      finding=finding or self.finding_ctx,
                      meta=dict(meta or {}, props=props or self.cur_props or self.props, label=label),
                      timeout_s=timeout_s)
        self.obls.append(o)

    def side(self, kind: str, goal, what: str = "") -> None:
        """Side obligation raised by a proxy operation (overflow, index, shift range ...)."""
        g = z3.simplify(goal) if not isinstance(goal, bool) else z3.BoolVal(goal)
        line = self._repo_line()
        label = "%s@L%s%s" % (kind, line, (":" + what) if what else "")
        self.oblige(label, g, kind=kind)

    def cover(self, label: str, cond=None) -> None:
        """Vacuity guard: the current path condition (and cond) must be satisfiable."""
        self.oblige("cover:" + label, z3.BoolVal(True) if cond is None else cond, kind="cover", expect="sat", qf=self.cover_qf)

    def _repo_line(self) -> str:
        if not self.srcfile:
            return "?"
        f = sys._getframe(2)
        while f is not None:
            if f.f_code.co_filename == self.srcfile:
                return str(f.f_lineno)
            f = f.f_back
        return "?"


def _has_quant(e) -> bool:
    seen = set()
    stack = [e]
    while stack:
        x = stack.pop()
        if z3.is_quantifier(x):
            return True
        i = x.get_id()
        if i in seen:
            continue
        seen.add(i)
        if z3.is_app(x):
            stack.extend(x.children())
    return False


def cur() -> Engine:
    if CUR is None:
        raise Unsupported("symbolic value used outside an engine")
    return CUR
