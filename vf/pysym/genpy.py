"""Per-program proofs for generated Python modules: the generated module is exec'd together with the
real bp.py (both under the proxy shadows) and encode / decode are run on symbolic field values.
Control flow is concrete (cursor, field numbers, indices), so each run is one path."""
from __future__ import annotations

import sys
import types
from typing import Any, Dict, List

import z3

from . import engine as EN
from . import loader
from .proxies import (SymInt, SymBool, CBytes, wrap, lift, sym_int, sym_bool, sym_len, sym_min, sym_max, sym_abs,
                      sym_isinstance)
from ..spec import layout as L
from ..spec.bits import W

BP = "lib/py/bitprotolib/bp.py"
LAST_BP = None

SHADOWS = dict(int=sym_int, min=sym_min, max=sym_max, len=sym_len, bool=sym_bool, abs=sym_abs,
               isinstance=sym_isinstance)


# ------------------------------------------------------------------ a proxy-aware IntEnum
class _EnumMeta(type):
    def __new__(mcs, name, bases, ns):
        members = {k: v for k, v in ns.items() if not k.startswith("_") and isinstance(v, int) and not isinstance(v, bool)}
        cls = super().__new__(mcs, name, bases, {k: v for k, v in ns.items() if k not in members})
        cls._members_ = []
        for k, v in members.items():
            m = int.__new__(cls, v)
            m._name_ = k
            type.__setattr__(cls, k, m)
            cls._members_.append(m)
        return cls

    def __call__(cls, value):
        """Enum lookup by value: raises ValueError for a non-member (a `no-exception` obligation when symbolic)."""
        if isinstance(value, (SymInt, SymBool)):
            vt = lift(value)
            ok = z3.Or(*[vt == int(m) for m in cls._members_]) if cls._members_ else z3.BoolVal(False)
            EN.cur().side("no-exception", ok, "ValueError: value is not a valid %s" % cls.__name__)
            return wrap(vt)
        for m in cls._members_:
            if int(m) == value:
                return m
        EN.cur().side("no-exception", z3.BoolVal(False), "ValueError: %r is not a valid %s" % (value, cls.__name__))
        raise EN.StopPath()

    def __iter__(cls):
        return iter(cls._members_)


class IntEnum(int, metaclass=_EnumMeta):
    @property
    def name(self):
        return self._name_

    @property
    def value(self):
        return int(self)

    def __repr__(self):
        return "<%s.%s: %d>" % (type(self).__name__, self._name_, int(self))


def _unique(cls):
    vals = [int(m) for m in cls._members_]
    if len(set(vals)) != len(vals):
        raise ValueError("duplicate values found in %r" % cls)
    return cls


def fake_enum_module():
    m = types.ModuleType("enum")
    m.IntEnum = IntEnum
    m.unique = _unique
    import enum as real
    m.Enum = real.Enum
    return m


# ------------------------------------------------------------------ loading
def load_runtime():
    bp, _ = loader.load(BP, "bitprotolib.bp", shadows=dict(SHADOWS, bytearray=CBytes))
    # bp.int8/16/32/64 are used through their proved contract (py:bp.intN: 0 <= i < 2^N ==> result = sx(i, N)),
    # which avoids one fork per decoded chunk; on plain ints the real function runs
    from ..spec.bits import sx, bv, pow2
    for N in (8, 16, 32, 64):
        real = getattr(bp, "int%d" % N)

        def stub(i, N=N, real=real):
            if not isinstance(i, (SymInt, SymBool)):
                return real(i)
            it = lift(i)
            EN.cur().oblige("pre-of-callee:bp.int%d" % N, z3.And(it >= 0, it < pow2(bv(N))), kind="pre-of-callee")
            return wrap(sx(it, bv(N)))
        setattr(bp, "int%d" % N, stub)
    pkg = types.ModuleType("bitprotolib")
    pkg.bp = bp
    pkg.__path__ = []
    sys.modules["bitprotolib"] = pkg
    sys.modules["bitprotolib.bp"] = bp
    global LAST_BP
    LAST_BP = bp
    return bp


def load_generated(outs: Dict[str, str], order: List[str]) -> Dict[str, Any]:
    """exec generated modules (file base names in dependency order); returns {module name: module}"""
    mods = {}
    real_enum = sys.modules["enum"]
    sys.modules["enum"] = fake_enum_module()
    try:
        for fn in order:
            name = fn[:-3]
            mod = types.ModuleType(name)
            mod.__file__ = "<generated %s>" % fn
            mod.__dict__.update(SHADOWS)
            mod.__dict__["bytearray"] = CBytes
            sys.modules[name] = mod
            exec(compile(outs[fn], "<generated %s>" % fn, "exec"), mod.__dict__)
            mods[name] = mod
    finally:
        sys.modules["enum"] = real_enum
    return mods


def py_class(mod, msg: L.Message):
    name = "_".join(L._path(msg))
    return getattr(mod, name)


# ------------------------------------------------------------------ value transfer
def set_values(inst, t: L.Ty, v, mods):
    """store the value tree v into the generated message instance `inst`"""
    r = L.resolve(t)
    assert isinstance(r, L.Message)
    for f in r.sorted_fields():
        setattr(inst, f.name, _to_py(getattr(inst, f.name), f.type, v[f.name], mods))


def _to_py(cur, t: L.Ty, v, mods):
    r = L.resolve(t)
    if isinstance(r, L.Message):
        set_values(cur, r, v, mods)
        return cur
    if isinstance(r, L.Array):
        items = [_to_py(cur[k], r.elem, v[k], mods) for k in range(r.cap)]
        if isinstance(cur, CBytes):
            return CBytes(items)
        return items
    return wrap(v) if z3.is_expr(v) else v


def get_values(inst, t: L.Ty):
    r = L.resolve(t)
    if isinstance(r, L.Message):
        return {f.name: get_values(getattr(inst, f.name), f.type) for f in r.sorted_fields()}
    if isinstance(r, L.Array):
        return [get_values(inst[k], r.elem) for k in range(r.cap)]
    return inst


def _vname(E, msg) -> str:
    """name prefix of the symbolic value of ONE run: unique per message and per run, so that the preconditions assumed for one run
    (e.g. in-range values when decoding) never constrain another run of the same proof path whose fields happen to have the same
    names (they did until wave 4 of the seeded changes exposed it: S1's encode was only proved for in-range x after S0's decode)"""
    E.run_n = getattr(E, "run_n", 0) + 1              # reset by Engine.explore at the start of every path
    return "v%d<%s>" % (E.run_n, "".join(L._path(msg)))


def _mk(E):
    def mk(name):
        if E.concrete is not None:      # replay: the counter-model's value (don't-care leaves: 0)
            return E.concrete.get(name, z3.BitVecVal(0, W))
        return z3.BitVec(name, W)
    return mk


# ------------------------------------------------------------------ the three per-message runs
def run_encode(E: EN.Engine, cls, msg: L.Message, mods, constrain: str = "typed", label: str = "encode"):
    """encode() on symbolic field values == reference layout, byte for byte.
    constrain='typed': bool/byte/enum in range (Python's own types enforce that), uint/int fields UNCONSTRAINED
    (any 128-bit integer: field containment for out-of-range values, C07)."""
    E.cur_props = [p for p in E.props if p in ("C01", "C07", "C12", "C14")]
    leaves: list = []
    v = L.fresh_value(msg, _vname(E, msg), leaves, _mk(E))
    for name, term, r in leaves:
        if constrain == "all" or isinstance(r, (L.Bool, L.Byte, L.Enum)):
            E.assume(L.in_range(term, r))
    E.cover(label + "/requires")
    inst = cls()
    set_values(inst, msg, v, mods)
    try:
        out = inst.encode()
    except (EN.StopPath, EN.Unsupported):
        raise
    except Exception as e:          # "neither direction raises": an exception out of the real code is a violation, not a checker error
        E.oblige("%s/no-exception (%s: %s)" % (label, type(e).__name__, str(e)[:80]), z3.BoolVal(False), kind="no-exception")
        raise EN.StopPath()
    n = L.nbytes(msg)
    E.oblige(label + "/length", z3.BoolVal(sym_len(out) == n and getattr(cls, "BYTES_LENGTH", None) == n))
    exp = L.bytes_of(L.enc(msg, v), n)
    got = list(out.v) if isinstance(out, CBytes) else list(out)
    for k in range(min(n, len(got))):
        E.oblige("%s/byte[%d]" % (label, k), z3.Extract(7, 0, lift(got[k])) == exp[k])
        E.oblige("%s/byte-range[%d]" % (label, k), z3.And(lift(got[k]) >= 0, lift(got[k]) <= 255), kind="byte-range")
    return v, got


def run_decode(E: EN.Engine, cls, msg: L.Message, mods, sender: L.Message = None, project=None, label="decode"):
    """decode(reference encoding of an in-range value) into a fresh instance == that value, field by field;
    with `sender` (C05) the buffer is the reference encoding of the extended schema's value."""
    E.cur_props = [p for p in E.props if p in ("C02", "C05", "C07", "C12", "C14")]
    src = sender or msg
    leaves: list = []
    v = L.fresh_value(src, _vname(E, src), leaves, _mk(E))
    for name, term, r in leaves:
        E.assume(L.in_range(term, r))
    E.cover(label + "/requires")
    n = L.nbytes(src)
    buf = CBytes([wrap(z3.ZeroExt(W - 8, b)) for b in L.bytes_of(L.enc(src, v), n)])
    inst = cls()
    try:
        inst.decode(buf)
    except (EN.StopPath, EN.Unsupported):
        raise
    except Exception as e:          # "neither direction raises"
        E.oblige("%s/no-exception (%s: %s)" % (label, type(e).__name__, str(e)[:80]), z3.BoolVal(False), kind="no-exception")
        raise EN.StopPath()
    E.oblige(label + "/buffer-untouched", z3.BoolVal(not buf.writes), kind="frame")
    own_n = L.nbytes(msg)
    if sender is None:
        E.oblige(label + "/reads-within-size", z3.BoolVal(all(i < own_n for i in buf.reads)), kind="frame")
    got = get_values(inst, msg)
    want = project(v) if project else v
    for (path, g, r), (_, w, _) in zip(L.leaves_of(msg, got), L.leaves_of(msg, want)):
        E.oblige("%s/field%s" % (label, path), lift(g) == w)
    return inst, v, buf


def run_history(E: EN.Engine, cls, msg: L.Message, mods):
    """one process, one loaded module, three calls in a row on three different objects: encode(a); encode(b) must still be the layout of
    b alone, and decode(layout of c) must still give c - no call leaves anything behind that a later call reads (class-level or
    module-level scratch state)"""
    run_encode(E, cls, msg, mods, label="history/first-encode")
    run_encode(E, cls, msg, mods, label="history/second-encode")
    run_decode(E, cls, msg, mods, label="history/decode-after-encodes")


def run_reencode(E: EN.Engine, inst, msg: L.Message, buf: CBytes):
    E.cur_props = [p for p in E.props if p in ("C02",)]
    out = inst.encode()
    got = list(out.v)
    for k in range(min(len(got), len(buf.v))):
        E.oblige("reencode/byte[%d]" % k, lift(got[k]) == lift(buf.v[k]))
    E.oblige("reencode/length", z3.BoolVal(len(got) == L.nbytes(msg)))


# ------------------------------------------------------------------ C16: to_dict / to_json
class JsonText:
    """result of the stubbed json.dumps: stands for 'the JSON text of this tree' (assumed contract of json.dumps:
    the argument must be a tree of dict/list/str/int/bool/None after `default` was applied to other leaves; the
    text parses back to that tree)"""

    def __init__(self, tree):
        self.tree = tree


def _json_stub(E):
    def dumps(obj, indent=None, separators=None, default=None, **kw):
        def conv(o, path):
            if isinstance(o, dict):
                for k in o:
                    E.oblige("json/key-is-str%s" % path, z3.BoolVal(isinstance(k, str)), kind="pre-of-callee")
                return {k: conv(v, "%s.%s" % (path, k)) for k, v in o.items()}
            if isinstance(o, (list, tuple)):
                return [conv(x, "%s[%d]" % (path, i)) for i, x in enumerate(o)]
            if o is None or isinstance(o, (bool, int, str, SymInt, SymBool)):
                return o
            if default is not None:
                try:
                    r = default(o)
                except TypeError as e:
                    E.oblige("json/serializable%s" % path, False, kind="pre-of-callee")
                    return None
                if isinstance(r, CBytes):
                    r = list(r.v)
                return conv(r, path)
            E.oblige("json/serializable%s (TypeError: Object of type %s is not JSON serializable)" % (path, type(o).__name__),
                     False, kind="pre-of-callee")
            return None
        return JsonText(conv(obj, ""))
    m = types.ModuleType("json")
    m.dumps = dumps
    return m


def json_tree(t: L.Ty, v):
    r = L.resolve(t)
    if isinstance(r, L.Message):
        return {f.name: json_tree(f.type, v[f.name]) for f in r.sorted_fields()}
    if isinstance(r, L.Array):
        return [json_tree(r.elem, v[k]) for k in range(r.cap)]
    return v


def _cmp_tree(E, got, want, path, label):
    if isinstance(want, dict):
        ok = isinstance(got, dict) and list(got.keys()) == list(want.keys())
        E.oblige("%s/keys-in-field-number-order%s" % (label, path), z3.BoolVal(ok))
        if ok:
            for k in want:
                _cmp_tree(E, got[k], want[k], "%s.%s" % (path, k), label)
        return
    if isinstance(want, list):
        ok = isinstance(got, list) and len(got) == len(want)
        E.oblige("%s/list%s" % (label, path), z3.BoolVal(ok))
        if ok:
            for i, (g, w) in enumerate(zip(got, want)):
                _cmp_tree(E, g, w, "%s[%d]" % (path, i), label)
        return
    if isinstance(got, (dict, list)) or got is None:
        E.oblige("%s/leaf%s" % (label, path), False)
        return
    E.oblige("%s/value%s" % (label, path), lift(got) == (want if z3.is_expr(want) else lift(want)))


def run_json(E: EN.Engine, cls, msg: L.Message, mods, bp):
    """to_json() / to_dict() of an instance holding in-range symbolic values: an object keyed by the schema's field names in
    field-number order whose values are the field values (nested messages as objects, arrays - byte arrays included - as lists)"""
    E.cur_props = ["C16"]
    leaves: list = []
    v = L.fresh_value(msg, _vname(E, msg), leaves, _mk(E))
    for name, term, r in leaves:
        E.assume(L.in_range(term, r))
    E.cover("json/requires")
    inst = cls()
    set_values(inst, msg, v, mods)
    real_json = bp.json
    bp.json = _json_stub(E)
    try:
        text = inst.to_json()
    finally:
        bp.json = real_json
    if isinstance(text, JsonText):
        _cmp_tree(E, text.tree, json_tree(msg, v), "", "json")
    else:
        E.oblige("json/result", False)


def sample_value(t: L.Ty, seedn: int = 1):
    """a concrete in-range value tree with Python-native types (bool for bool) for the native JSON type check"""
    r = L.resolve(t)
    if isinstance(r, L.Message):
        return {f.name: sample_value(f.type, seedn * 7 + f.number) for f in r.sorted_fields()}
    if isinstance(r, L.Array):
        return [sample_value(r.elem, seedn * 3 + k + 1) for k in range(r.cap)]
    if isinstance(r, L.Bool):
        return bool(seedn % 2)
    if isinstance(r, L.Byte):
        return (seedn * 37) % 256
    if isinstance(r, L.Uint):
        return (seedn * 0x9E3779B97F4A7C15) % (1 << r.n)
    if isinstance(r, L.Int):
        return ((seedn * 0x9E3779B97F4A7C15) % (1 << r.n)) - (1 << (r.n - 1))
    if isinstance(r, L.Enum):
        return r.members[seedn % len(r.members)][1]
    raise TypeError(r)


def load_native(outs: Dict[str, str], order: List[str]):
    """the generated modules and bp.py exec'd with NO shadowing at all (real int, bytearray, enum, json)"""
    bp, _ = loader.load(BP, "bitprotolib.bp", shadows=None)
    pkg = types.ModuleType("bitprotolib")
    pkg.bp = bp
    pkg.__path__ = []
    sys.modules["bitprotolib"] = pkg
    sys.modules["bitprotolib.bp"] = bp
    mods = {}
    for fn in order:
        name = fn[:-3]
        mod = types.ModuleType(name)
        sys.modules[name] = mod
        exec(compile(outs[fn], "<generated %s>" % fn, "exec"), mod.__dict__)
        mods[name] = mod
    return mods


def run_json_native(E: EN.Engine, outs, order, modname, msg: L.Message):
    """native run (no proxies, real json module) on one concrete value per message: the text is well-formed JSON and parses to
    the tree with JSON types - true/false for bools, numbers (negative where negative), lists, objects in field-number order"""
    import json as real_json
    E.cur_props = ["C16"]
    val = sample_value(msg)
    try:
        mods = load_native(outs, order)
        inst = py_class(mods[modname], msg)()

        def put(cur, t, v):
            r = L.resolve(t)
            if isinstance(r, L.Message):
                for f in r.sorted_fields():
                    setattr(cur, f.name, put(getattr(cur, f.name), f.type, v[f.name]))
                return cur
            if isinstance(r, L.Array):
                items = [put(cur[k], r.elem, v[k]) for k in range(r.cap)]
                return bytearray(items) if isinstance(cur, bytearray) else items
            return v
        put(inst, msg, val)
        text = inst.to_json()
        tree = real_json.loads(text)
        ok = tree == val and _same_types(tree, val)
        E.oblige("json-native/parses-to-the-values-with-json-types", z3.BoolVal(bool(ok)))
        d = inst.to_dict()
        E.oblige("json-native/to_dict-keys", z3.BoolVal(list(d.keys()) == [f.name for f in msg.sorted_fields()]))
    except Exception as e:
        E.notes.append("json-native %s: %r" % (msg.name, e))
        E.oblige("json-native/no-exception (%s)" % type(e).__name__, False, kind="no-exception")


def _same_types(a, b):
    if isinstance(b, dict):
        return isinstance(a, dict) and list(a.keys()) == list(b.keys()) and all(_same_types(a[k], b[k]) for k in b)
    if isinstance(b, list):
        return isinstance(a, list) and len(a) == len(b) and all(_same_types(x, y) for x, y in zip(a, b))
    if isinstance(b, bool):
        return isinstance(a, bool)
    return isinstance(a, int) and not isinstance(a, bool)
