"""csym generic mode: the same clang-AST interpreter, for contract proofs over ALL inputs.

Differences from per-program mode (interp.Interp):
  * memory regions may be symbolic: z3 Array(BV32 -> BV8) with a symbolic size; pointer offsets may be BV32 terms;
    every access emits a bounds obligation (kind `frame`);
  * a symbolic `if` / `?:` / `&&` forks through the pysym engine (depth-first re-execution) instead of merging;
  * shift counts may be symbolic (obligation: 0 <= count < width);
  * a loop with an invariant in the side-car is cut: assert invariant; havoc the listed locals and regions; assume invariant;
    one guarded body; assert invariant and variant; stop path;
  * callees named in `stubs` are replaced by their contracts (precondition = obligation, effect = havoc + postcondition).
"""
from __future__ import annotations

from typing import Any, Callable, Dict, List, Optional

import z3

from . import interp as CI
from .interp import Interp, Ptr, FuncPtr, Region, LV, CUnsupported, StopRun, is_sym
from .ctypes_ import TInt, TPtr, TArr, TStruct, TVoid
from ..pysym import engine as EN

OW = 32     # width of pointer offsets / memory indices


def o32(x):
    return x if is_sym(x) else z3.BitVecVal(x, OW)


class SymRegion:
    """memory object of symbolic size and contents"""
    _n = 0

    def __init__(self, name, arr=None, size=None, writable=True):
        SymRegion._n += 1
        self.id = 10_000_000 + SymRegion._n
        self.name = name
        self.arr = arr if arr is not None else z3.Array(name, z3.BitVecSort(OW), z3.BitVecSort(8))
        self.size = size if size is not None else z3.BitVec(name + "_size", OW)
        self.writable = writable
        self.kind = "sym"
        self.writes = 0


class LoopCut:
    """invariant / variant / havoc list of one loop: inv(I) -> [(label, z3 bool)], variant(I) -> BV term,
    havoc_locals = names of locals to havoc, havoc_regions = SymRegions to havoc"""

    def __init__(self, inv, variant=None, havoc_locals=(), havoc_regions=(), hints=None, cases=None):
        self.lemmas = None           # lemmas(I, head, k) -> [(label, QF formula)]: proved (obligation) then assumed for the skolemised goals
        self.instance_terms = None   # instance_terms(I, head, k) -> extra terms at which the head invariant is instantiated
        self.snapshot = None    # snapshot(I) -> any: state at the loop head handed to cases()
        self.cases = cases      # cases(I, head_state) -> [(label, predicate(k))]: case split applied to every quantified conjunct
        self.inv, self.variant, self.havoc_locals, self.havoc_regions = inv, variant, list(havoc_locals), list(havoc_regions)
        self.hints = hints      # hints(I) -> [(label, formula)]: consequences of the invariant, PROVED (obligation) and then assumed


class GInterp(Interp):
    def __init__(self, prog, big=False, oblige=None):
        super().__init__(prog, big=big, oblige=oblige)
        self.loop_cuts: Dict[tuple, LoopCut] = {}     # (function name, loop ordinal) -> LoopCut
        self.stubs: Dict[str, Callable] = {}          # function name -> stub(interp, args)
        self.keep_terms = True
        self.cur_func: List[str] = []
        self.loop_counter: Dict[str, int] = {}
        self.fresh_n = 0

    # ------------------------------------------------------------ engine glue
    def E(self) -> EN.Engine:
        return EN.cur()

    def fresh(self, name, bits):
        return self.E().fresh(name, z3.BitVecSort(bits))

    def ob(self, kind, label, goal):
        if isinstance(goal, bool):
            if goal:
                return
            goal = z3.BoolVal(False)
        self.E().oblige("%s:%s" % (kind, label), goal, kind=kind, qf=True)

    def decide(self, c) -> bool:
        """truth of a C condition value (forks when symbolic)"""
        if isinstance(c, (Ptr, FuncPtr)):
            return self.truth(c)
        if is_sym(c):
            return self.E().branch(c != 0)
        return c != 0

    # ------------------------------------------------------------ locals by name
    def local(self, name) -> Region:
        for rid, r in self.frames[-1].items():
            if r.name == name or r.name.endswith("." + name):
                return r
        raise CUnsupported("no local named %s" % name)

    def get_local(self, name, t: TInt):
        return self.load(LV(self.local(name), 0, t))

    # ------------------------------------------------------------ memory
    def _check(self, r, off, n, what):
        if r is None:
            self.ob("ub", "null pointer dereference (%s)" % what, False)
            raise StopRun("null")
        if isinstance(r, SymRegion):
            ot = o32(off)
            self.ob("frame", "%s of %d byte(s) inside object '%s'" % (what, n, r.name),
                    z3.And(ot >= 0, z3.BVAddNoOverflow(ot, z3.BitVecVal(n, OW), True), ot + n <= r.size))
            return
        if is_sym(off):
            raise CUnsupported("symbolic offset into concrete object '%s'" % r.name)
        super()._check(r, off, n, what)

    def load_cells(self, r, off, n):
        if isinstance(r, SymRegion):
            self._check(r, off, n, "read")
            ot = o32(off)
            return [z3.Select(r.arr, ot + k) for k in range(n)]
        return super().load_cells(r, off, n)

    def store_cells(self, r, off, cells):
        if isinstance(r, SymRegion):
            self._check(r, off, len(cells), "write")
            if not r.writable:
                self.ob("frame", "write to read-only object '%s'" % r.name, False)
            ot = o32(off)
            for k, c in enumerate(cells):
                if c is None or isinstance(c, tuple):
                    raise CUnsupported("pointer / uninitialised store into symbolic memory")
                r.arr = z3.Store(r.arr, ot + k, c if is_sym(c) else z3.BitVecVal(c, 8))
            r.writes += 1
            return
        return super().store_cells(r, off, cells)

    def load(self, lv: LV):
        if isinstance(lv.region, SymRegion) and isinstance(lv.type, TInt):
            n = lv.type.bits // 8
            cells = self.load_cells(lv.region, lv.off, n)
            order = cells[::-1] if not self.big else cells
            return self.norm(z3.Concat(*order) if n > 1 else order[0], lv.type)
        return super().load(lv)

    # ------------------------------------------------------------ pointers with symbolic offsets
    def _poff(self, a: Ptr, idx, sz, sign=1):
        if not is_sym(idx) and not is_sym(a.off):
            return a.off + sign * idx * sz
        it = idx if is_sym(idx) else z3.BitVecVal(idx, OW)
        if it.size() < OW:
            it = z3.SignExt(OW - it.size(), it)
        elif it.size() > OW:
            it = z3.Extract(OW - 1, 0, it)
        d = it * sz if sz != 1 else it
        return o32(a.off) + d if sign > 0 else o32(a.off) - d

    def ptr_binary(self, op, a, b, a_n, b_n, t):
        if op in ("+", "-") and isinstance(a, Ptr) and not isinstance(b, (Ptr, FuncPtr)):
            to = self.ty(a_n).to
            sz = self.T.sizeof(to) if not isinstance(to, TVoid) else 1
            return Ptr(a.region, self._poff(a, b, sz, 1 if op == "+" else -1))
        if op == "+" and isinstance(b, Ptr):
            return self.ptr_binary("+", b, a, b_n, a_n, t)
        return super().ptr_binary(op, a, b, a_n, b_n, t)

    def compound_assign(self, n):
        lv = self.lval(n["inner"][0])
        if isinstance(lv.type, TPtr):
            op = n["opcode"][:-1]
            old = self.load(lv)
            rhs = self.rval(n["inner"][1])
            sz = self.T.sizeof(lv.type.to)
            new = Ptr(old.region, self._poff(old, rhs, sz, 1 if op == "+" else -1))
            self.store(lv, new)
            return new
        return super().compound_assign(n)

    def lval(self, n):
        if n["kind"] == "ArraySubscriptExpr":
            a, i = n["inner"]
            pa, ia = self.rval(a), self.rval(i)
            if isinstance(ia, Ptr):
                pa, ia = ia, pa
            et = self.ty(n)
            if pa.region is None:
                self.ob("ub", "null pointer dereference ([])", False)
                raise StopRun("null")
            return LV(pa.region, self._poff(pa, ia, self.T.sizeof(et)), et)
        return super().lval(n)

    # ------------------------------------------------------------ shifts with symbolic counts
    def shift(self, op, a, b, t: TInt):
        if not is_sym(b):
            return super().shift(op, a, b, t)
        bb = b
        if bb.size() < t.bits:
            bb = z3.ZeroExt(t.bits - bb.size(), bb)
        elif bb.size() > t.bits:
            bb = z3.Extract(t.bits - 1, 0, bb)
        self.ob("ub", "shift count in [0, %d)" % t.bits, z3.And(b >= 0, z3.ULT(bb, z3.BitVecVal(t.bits, t.bits))))
        x = self.bv(a, t)
        if op == "<<":
            if t.signed:
                self.ob("ub", "left shift of signed value overflows / is negative",
                        z3.And(x >= 0, z3.LShR(x << bb, bb) == x, (x << bb) >= 0))
            return self.norm(x << bb, t)
        return self.norm((x >> bb) if t.signed else z3.LShR(x, bb), t)

    # ------------------------------------------------------------ control flow: fork instead of merge, loop cuts
    def if_stmt(self, n):
        inner = n["inner"]
        c = self.rval(inner[0])
        if self.decide(c):
            self.stmt(inner[1])
        elif len(inner) > 2:
            self.stmt(inner[2])

    def rval(self, n):
        k = n["kind"]
        if k == "ConditionalOperator":
            c = self.rval(n["inner"][0])
            return self.rval(n["inner"][1] if self.decide(c) else n["inner"][2])
        if k == "BinaryOperator" and n["opcode"] in ("&&", "||"):
            a = self.decide(self.rval(n["inner"][0]))
            if (n["opcode"] == "&&" and not a) or (n["opcode"] == "||" and a):
                return 1 if a else 0
            return 1 if self.decide(self.rval(n["inner"][1])) else 0
        if k == "UnaryOperator" and n["opcode"] == "!":
            v = self.rval(n["inner"][0])
            return 0 if self.decide(v) else 1
        return super().rval(n)

    def switch(self, n):
        c = self.rval(n["inner"][0])
        if not is_sym(c):
            return self.switch_value(n, c)
        # fork over the case labels; when none matches, a value different from all labels selects default / falls out
        body = n["inner"][-1]
        vals = []
        for s in body.get("inner", []):
            while s.get("kind") in ("CaseStmt", "DefaultStmt"):
                if s["kind"] == "CaseStmt":
                    vals.append(self.rval(s["inner"][0]))
                s = s["inner"][-1]
        for v in vals:
            if self.E().branch(c == v):
                return self.switch_value(n, v)
        return self.switch_value(n, (max(vals) + 1) if vals else 0)

    def call_func(self, name, args):
        if name in self.stubs:
            return self.stubs[name](self, args)
        self.cur_func.append(name)
        saved = self.loop_counter.get(name)
        self.loop_counter[name] = 0
        try:
            return super().call_func(name, args)
        finally:
            self.cur_func.pop()
            if saved is not None:
                self.loop_counter[name] = saved

    def call(self, n):
        callee = self.rval(n["inner"][0])
        if isinstance(callee, FuncPtr) and callee.name in self.stubs:
            args = [self.rval(a) for a in n["inner"][1:]]
            return self.stubs[callee.name](self, args)
        return super().call(n)

    def stmt(self, n):
        k = n.get("kind")
        if k in ("WhileStmt", "ForStmt") and self.cur_func:
            f = self.cur_func[-1]
            self.loop_counter[f] = self.loop_counter.get(f, 0) + 1
            key = (f, self.loop_counter[f])
            if key in self.loop_cuts:
                return self.cut_loop(n, self.loop_cuts[key], "%s#%d" % key)
            if k == "ForStmt":
                # concrete-trip-count loops run normally, but symbolic conditions fork
                init, _cv, cond, inc, body = n["inner"]
                self.stmt(init)
                while True:
                    if cond.get("kind"):
                        cv = self.rval(cond)
                        if is_sym(cv):
                            raise CUnsupported("loop %s#%d has a symbolic condition and no invariant in the side-car" % key)
                        if cv == 0:
                            break
                    try:
                        self.stmt(body)
                    except CI._Break:
                        break
                    except CI._Continue:
                        pass
                    if inc.get("kind"):
                        self.rval(inc)
                return
            if k == "WhileStmt":
                cond, body = n["inner"][-2], n["inner"][-1]
                while True:
                    cv = self.rval(cond)
                    if is_sym(cv):
                        raise CUnsupported("loop %s#%d has a symbolic condition and no invariant in the side-car" % key)
                    if cv == 0:
                        break
                    try:
                        self.stmt(body)
                    except CI._Break:
                        break
                    except CI._Continue:
                        pass
                return
        return super().stmt(n)

    def cut_loop(self, n, cut: LoopCut, lid: str):
        E = self.E()
        if n["kind"] == "ForStmt":
            init, _cv, cond, inc, body = n["inner"]
            self.stmt(init)
        else:
            cond, body, inc = n["inner"][-2], n["inner"][-1], {}
        for label, g in cut.inv(self):
            E.oblige("%s/inv-entry#%s" % (lid, label), g, kind="inv-entry", qf=not EN._has_quant(g))
        # havoc
        for name in cut.havoc_locals:
            r = self.local(name)
            r.data = [None] * r.size
            t = self._local_types.get(name)
            if t is None:
                raise CUnsupported("type of havoc'd local %s not declared" % name)
            if isinstance(t, TInt):
                self.store(LV(r, 0, t), self.fresh(name, t.bits))
            elif isinstance(t, tuple) and t[0] == "ptr":
                self.store(LV(r, 0, TPtr(TInt(8, False))), Ptr(t[1], self.fresh(name + "_off", OW)))
        for sr in cut.havoc_regions:
            sr.arr = E.fresh(sr.name, z3.ArraySort(z3.BitVecSort(OW), z3.BitVecSort(8)))
        if getattr(cut, "pre_assume", None):
            cut.pre_assume(self)          # contract-specific havoc of heap state the loop modifies
        head_inv = cut.inv(self)
        for label, g in head_inv:
            E.assume(g)
        if cut.hints:
            for label, g in cut.hints(self):
                E.oblige("%s/hint#%s" % (lid, label), g, kind="lemma", qf=not EN._has_quant(g))
                E.assume(g)
        v0 = cut.variant(self) if cut.variant else None
        head = cut.snapshot(self) if hasattr(cut, "snapshot") and cut.snapshot else None
        if cond.get("kind") is None or self.decide(self.rval(cond)):
            E.cover("%s/body-reachable" % lid)
            try:
                self.stmt(body)
            except CI._Continue:
                pass
            if inc.get("kind"):
                self.rval(inc)
            if getattr(cut, "at_back_edge", None):
                cut.at_back_edge(self)
            kc0 = z3.BitVec("k!sk", OW)
            if cut.lemmas:
                for ll, lg in cut.lemmas(self, head, kc0):
                    E.oblige("%s/lemma#%s" % (lid, ll), lg, kind="lemma", qf=True)
                    E.assume(lg)
            for label, g in cut.inv(self):
                if z3.is_quantifier(g) and g.is_forall() and g.num_vars() == 1:
                    # skolemise the goal (validity = for all values of the fresh constant) and split it into cases
                    kc = z3.BitVec("k!sk", g.var_sort(0).size())
                    inst = z3.substitute_vars(g.body(), kc)
                    cs = cut.cases(self, head, label) if cut.cases else [("all", lambda k: z3.BoolVal(True))]
                    # instances of the (assumed) head invariant at the skolem constant and at the contract's extra terms:
                    # consequences of hypotheses already in the path condition, used for the quantifier-free first attempt
                    terms = [kc] + (cut.instance_terms(self, head, kc) if cut.instance_terms else [])
                    insts = []
                    for hl, hg in head_inv:
                        if z3.is_quantifier(hg) and hg.is_forall() and hg.num_vars() == 1:
                            for tm in terms:
                                insts.append(z3.substitute_vars(hg.body(), tm))
                    for cl, pred in cs:
                        E.oblige("%s/inv-preserve#%s/%s" % (lid, label, cl), z3.Implies(pred(kc), inst), kind="inv-preserve",
                                 pruned_extra=insts, timeout_s=900.0)
                else:
                    E.oblige("%s/inv-preserve#%s" % (lid, label), g, kind="inv-preserve", qf=not EN._has_quant(g))
            if v0 is not None:
                v1 = cut.variant(self)
                E.oblige("%s/variant" % lid, z3.And(v0 >= 0, v1 < v0), kind="variant")
            raise EN.StopPath()
        # exit path: invariant and not cond hold

    _local_types: Dict[str, Any] = {}
