"""csym: an interpreter over clang's typed JSON AST of the REAL C sources (lib/c/bitproto.c and generated files).

Per-program mode: control flow is concrete (descriptors, cursor, loop counters are concrete integers), data
bytes may be symbolic (z3 BitVec(8)).  A symbolic `if` whose branches contain no return/break/continue is
executed on both sides and the memories are merged cell-wise with If(cond, then, else).

Memory is byte-granular: a region is a list of cells, a cell is  int | z3 BV8 | ('p', pointer, k) | None(uninit).
Typed loads/stores assemble bytes in the TARGET endianness (`big`), which is how the `-DBP_BIG_ENDIAN` AST is
analysed on this little-endian host (C06).
Every out-of-bounds access, read of uninitialised memory, shift count out of range, signed overflow, division
by zero and null dereference is an obligation of kind `ub` / `frame` (never silently ignored).
"""
from __future__ import annotations

import json
import re
import os
import subprocess
from typing import Any, Dict, List, Optional, Tuple

import z3

from .ctypes_ import Types, CType, TInt, TPtr, TArr, TStruct, TVoid, TFunc


class CUnsupported(Exception):
    pass


class _Break(Exception):
    pass


class _Continue(Exception):
    pass


class _Return(Exception):
    def __init__(self, v):
        self.v = v


class StopRun(Exception):
    """execution cannot continue after a definite error (already recorded as a failed obligation)"""


# ----------------------------------------------------------------------------- program (AST) loading
class Program:
    def __init__(self):
        self.types = Types()
        self.funcs: Dict[str, dict] = {}
        self.enum_consts: Dict[str, int] = {}
        self.globals: Dict[str, dict] = {}
        self.sources: List[str] = []

    def add_ast(self, ast: dict, src: str):
        self.sources.append(src)
        for n in ast.get("inner", []):
            k = n.get("kind")
            if k == "TypedefDecl":
                self.types.typedefs[n["name"]] = n["type"]["qualType"]
            elif k == "RecordDecl" and n.get("completeDefinition") and n.get("name"):
                fields, pack = [], None
                for c in n.get("inner", []):
                    if c.get("kind") == "FieldDecl":
                        if c.get("isBitfield"):
                            raise CUnsupported("bit-field in struct " + n["name"])
                        fields.append((c["name"], c["type"]["qualType"]))
                    elif c.get("kind") == "MaxFieldAlignmentAttr":
                        pack = "?"
                    elif c.get("kind") in ("PackedAttr",):
                        pack = 1
                if pack == "?":
                    raise CUnsupported("#pragma pack on struct %s: alignment value is not in the JSON dump" % n["name"])
                self.types.records[n["name"]] = {"fields": fields, "pack": pack}
                self.types._layout.pop(n["name"], None)
            elif k == "FunctionDecl" and any(c.get("kind") == "CompoundStmt" for c in n.get("inner", [])):
                self.funcs[n["name"]] = n
            elif k == "EnumDecl":
                v = -1
                for c in n.get("inner", []):
                    if c.get("kind") == "EnumConstantDecl":
                        v += 1
                        for cc in c.get("inner", []):
                            if cc.get("kind") == "ConstantExpr" and "value" in cc:
                                v = int(cc["value"])
                        self.enum_consts[c["name"]] = v


def clang_ast(path: str, includes: List[str], defines: List[str] = ()) -> dict:
    cmd = ["clang", "-Xclang", "-ast-dump=json", "-fsyntax-only", "-w"] + ["-I" + i for i in includes] + \
          ["-D" + d for d in defines] + [path]
    p = subprocess.run(cmd, capture_output=True, text=True)
    if p.returncode != 0:
        raise CUnsupported("clang failed on %s: %s" % (path, p.stderr[:500]))
    return json.loads(p.stdout)


# ----------------------------------------------------------------------------- values
class Ptr:
    __slots__ = ("region", "off")

    def __init__(self, region, off):
        self.region, self.off = region, off

    def __repr__(self):
        return "Ptr(%s+%d)" % (self.region.name if self.region else "NULL", self.off)


NULL = Ptr(None, 0)


class FuncPtr:
    __slots__ = ("name",)

    def __init__(self, name):
        self.name = name


class Choice:
    """value of `c ? a : b` with symbolic c and non-integer operands (e.g. two string literals)"""
    __slots__ = ("cond", "a", "b")

    def __init__(self, cond, a, b):
        self.cond, self.a, self.b = cond, a, b


class Agg:
    """struct / array rvalue: raw cells"""
    __slots__ = ("cells",)

    def __init__(self, cells):
        self.cells = cells


class Region:
    _n = 0

    def __init__(self, name, size, init=None, writable=True, kind="local"):
        Region._n += 1
        self.id = Region._n
        self.name, self.size, self.writable, self.kind = name, size, writable, kind
        self.data: List[Any] = [init] * size if not isinstance(init, list) else list(init)
        self.reads = set()
        self.writes = set()


class LV:
    __slots__ = ("region", "off", "type")

    def __init__(self, region, off, type_):
        self.region, self.off, self.type = region, off, type_


def is_sym(v):
    return z3.is_expr(v)


# ----------------------------------------------------------------------------- interpreter
class Interp:
    def __init__(self, prog: Program, big: bool = False, oblige=None, max_steps: int = 5_000_000):
        self.p = prog
        self.T = prog.types
        self.big = big
        self.oblige_cb = oblige            # oblige_cb(kind, label, goal(z3 bool | bool), guard list)
        self.guards: List[Any] = []        # conditions of enclosing merged branches
        self.frames: List[Dict[str, Region]] = []
        self.strings: Dict[str, Region] = {}
        self.steps = 0
        self.max_steps = max_steps
        self.externals = {}
        self.call_depth = 0
        self.keep_terms = False       # generic mode: keep terms as the code built them (no arithmetic normal forms)

    # -------------------------------------------------------------- obligations
    def ob(self, kind, label, goal):
        if isinstance(goal, bool) and goal:
            return
        if self.oblige_cb:
            self.oblige_cb(kind, label, goal, list(self.guards))
        if isinstance(goal, bool) and not goal and not self.guards:
            raise StopRun(label)

    # -------------------------------------------------------------- integer helpers
    def norm(self, v, t: TInt):
        """normalise an integer value to type t (python int -> canonical range; z3 -> width t.bits)"""
        if is_sym(v):
            sv = z3.simplify(v)
            if z3.is_bv_value(sv):
                v = sv.as_long()
            else:
                assert v.size() == t.bits, (v.size(), t)
                return v if self.keep_terms else sv
        v &= (1 << t.bits) - 1
        if t.signed and v >> (t.bits - 1):
            v -= 1 << t.bits
        return v

    def bv(self, v, t: TInt):
        return v if is_sym(v) else z3.BitVecVal(v, t.bits)

    def conv(self, v, ft: TInt, tt: TInt):
        if tt.is_bool:
            if is_sym(v):
                return self.norm(z3.If(v != 0, z3.BitVecVal(1, 8), z3.BitVecVal(0, 8)), tt)
            return 1 if v != 0 else 0
        if not is_sym(v):
            return self.norm(v, tt)
        if tt.bits == ft.bits:
            return v
        if tt.bits < ft.bits:
            return self.norm(z3.Extract(tt.bits - 1, 0, v), tt)
        return self.norm(z3.SignExt(tt.bits - ft.bits, v) if ft.signed else z3.ZeroExt(tt.bits - ft.bits, v), tt)

    # -------------------------------------------------------------- memory
    def alloc(self, name, size, init=None, kind="local", writable=True) -> Region:
        return Region(name, size, init, writable, kind)

    def _check(self, r: Region, off: int, n: int, what: str):
        if r is None:
            self.ob("ub", "null pointer dereference (%s)" % what, False)
            raise StopRun("null deref")
        if off < 0 or off + n > r.size:
            self.ob("frame", "%s of %d byte(s) at offset %d outside object '%s' of %d bytes" % (what, n, off, r.name, r.size), False)
            raise StopRun("out of bounds")

    def load_cells(self, r: Region, off: int, n: int):
        self._check(r, off, n, "read")
        for k in range(off, off + n):
            r.reads.add(k)
        return r.data[off:off + n]

    def store_cells(self, r: Region, off: int, cells):
        self._check(r, off, len(cells), "write")
        if not r.writable:
            self.ob("frame", "write to read-only object '%s'" % r.name, False)
            raise StopRun("write to const")
        for k, c in enumerate(cells):
            r.data[off + k] = c
            r.writes.add(off + k)

    def load(self, lv: LV):
        t = lv.type
        if isinstance(t, TInt):
            n = t.bits // 8
            cells = self.load_cells(lv.region, lv.off, n)
            if any(c is None or isinstance(c, tuple) for c in cells):
                self.ob("ub", "read of uninitialised / non-integer memory in '%s'+%d" % (lv.region.name, lv.off), False)
                raise StopRun("uninit")
            whole = getattr(lv.region, "whole", {}).get((lv.off, n))
            if whole is not None and len(whole[1]) == n and all(a is b for a, b in zip(whole[1], cells)):
                return self.norm(whole[0], t)        # exactly the bytes of one earlier typed store: the stored term itself
            order = cells[::-1] if not self.big else cells          # most significant first
            if all(isinstance(c, int) for c in cells):
                v = 0
                for c in order:
                    v = (v << 8) | c
                return self.norm(v, t)
            parts = [c if is_sym(c) else z3.BitVecVal(c, 8) for c in order]
            return self.norm(z3.Concat(*parts) if n > 1 else parts[0], t)
        if isinstance(t, TPtr):
            cells = self.load_cells(lv.region, lv.off, 8)
            c0 = cells[0]
            if not (isinstance(c0, tuple) and c0[0] == "p" and all(isinstance(c, tuple) and c[1] is c0[1] and c[2] == k
                                                                  for k, c in enumerate(cells))):
                if all(c == 0 for c in cells):
                    return NULL
                self.ob("ub", "read of a non-pointer as pointer in '%s'+%d" % (lv.region.name, lv.off), False)
                raise StopRun("bad pointer")
            return c0[1]
        if isinstance(t, (TStruct, TArr)):
            return Agg(self.load_cells(lv.region, lv.off, self.T.sizeof(t)))
        raise CUnsupported("load of %r" % (t,))

    def store(self, lv: LV, v):
        t = lv.type
        if isinstance(t, TInt):
            n = t.bits // 8
            if isinstance(v, bool):
                v = int(v)
            if is_sym(v):
                bs = [z3.simplify(z3.Extract(8 * k + 7, 8 * k, v)) for k in range(n)]      # little-endian order
                bs = [b.as_long() if z3.is_bv_value(b) else b for b in bs]
            else:
                v &= (1 << t.bits) - 1
                bs = [(v >> (8 * k)) & 255 for k in range(n)]
            if self.big:
                bs = bs[::-1]
            self.store_cells(lv.region, lv.off, bs)
            if is_sym(v) and isinstance(lv.region, Region) and not is_sym(lv.off):
                if not hasattr(lv.region, "whole"):
                    lv.region.whole = {}
                lv.region.whole[(lv.off, n)] = (v, list(lv.region.data[lv.off:lv.off + n]))
        elif isinstance(t, TPtr):
            if not isinstance(v, (Ptr, FuncPtr)):
                raise CUnsupported("store of non-pointer %r into pointer" % (v,))
            if v is NULL or (isinstance(v, Ptr) and v.region is None):
                self.store_cells(lv.region, lv.off, [0] * 8)
            else:
                self.store_cells(lv.region, lv.off, [("p", v, k) for k in range(8)])
        elif isinstance(t, (TStruct, TArr)):
            assert isinstance(v, Agg) and len(v.cells) == self.T.sizeof(t)
            self.store_cells(lv.region, lv.off, list(v.cells))
        else:
            raise CUnsupported("store to %r" % (t,))

    # -------------------------------------------------------------- types of nodes
    def ty(self, n) -> CType:
        return self.T.parse(n["type"]["qualType"])

    # -------------------------------------------------------------- lvalues
    def lval(self, n) -> LV:
        k = n["kind"]
        if k == "ParenExpr":
            return self.lval(n["inner"][0])
        if k == "DeclRefExpr":
            rid = n["referencedDecl"]["id"]
            for fr in (self.frames[-1],):
                if rid in fr:
                    return LV(fr[rid], 0, self.ty(n))
            raise CUnsupported("reference to unknown variable %s" % n["referencedDecl"].get("name"))
        if k == "UnaryOperator" and n["opcode"] == "*":
            p = self.rval(n["inner"][0])
            if not isinstance(p, Ptr):
                raise CUnsupported("deref of non-pointer")
            if p.region is None:
                self.ob("ub", "null pointer dereference", False)
                raise StopRun("null")
            return LV(p.region, p.off, self.ty(n))
        if k == "MemberExpr":
            base = n["inner"][0]
            if n.get("isArrow"):
                p = self.rval(base)
                if not isinstance(p, Ptr) or p.region is None:
                    self.ob("ub", "null pointer dereference (->%s)" % n["name"], False)
                    raise StopRun("null")
                bt = self.ty(base)
                st = bt.to
                reg, off = p.region, p.off
            else:
                b = self.lval(base)
                st, reg, off = b.type, b.region, b.off
            if not isinstance(st, TStruct):
                raise CUnsupported("member of non-struct %r" % (st,))
            foff, ft = self.T.field(st.name, n["name"])
            return LV(reg, off + foff, ft)
        if k == "ArraySubscriptExpr":
            a, i = n["inner"]
            pa, ia = self.rval(a), self.rval(i)
            if isinstance(ia, Ptr):
                pa, ia = ia, pa
            if is_sym(ia):
                raise CUnsupported("symbolic array index")
            et = self.ty(n)
            if pa.region is None:
                self.ob("ub", "null pointer dereference ([])", False)
                raise StopRun("null")
            return LV(pa.region, pa.off + ia * self.T.sizeof(et), et)
        if k == "CompoundLiteralExpr":
            t = self.ty(n)
            r = self.alloc("compound-literal", self.T.sizeof(t), None, kind="temp")
            self.init_into(LV(r, 0, t), n["inner"][0])
            return LV(r, 0, t)
        if k == "StringLiteral":
            s = n.get("value", '""')
            if s not in self.strings:
                try:
                    b = json.loads(s).encode("latin-1", "replace")
                except Exception:
                    b = s.encode()
                self.strings[s] = self.alloc("string-literal", len(b) + 1, list(b) + [0], kind="const", writable=False)
            return LV(self.strings[s], 0, self.ty(n))
        if k in ("ImplicitCastExpr", "CStyleCastExpr") and n.get("castKind") == "NoOp":
            lv = self.lval(n["inner"][0])
            return LV(lv.region, lv.off, self.ty(n))
        raise CUnsupported("lvalue of kind %s" % k)

    # -------------------------------------------------------------- initialisers
    def init_into(self, lv: LV, init):
        t = lv.type
        if init["kind"] == "InitListExpr":
            if isinstance(t, TStruct):
                size, _, fields = self.T.layout(t.name)
                items = init.get("inner", [])
                names = list(fields.keys())
                # zero everything first (members without initialiser are zero-initialised)
                self.store_cells(lv.region, lv.off, [0] * size)
                for fname, item in zip(names, items):
                    foff, ft = fields[fname]
                    self.init_into(LV(lv.region, lv.off + foff, ft), item)
                return
            if isinstance(t, TArr):
                esz = self.T.sizeof(t.elem)
                self.store_cells(lv.region, lv.off, [0] * (esz * t.n))
                items = init.get("inner", [])
                filler = init.get("array_filler")
                if filler is not None:
                    items = [x for x in filler if x.get("kind") not in ("ImplicitValueInitExpr",)] if isinstance(filler, list) else items
                for k, item in enumerate(items):
                    if item.get("kind") == "ImplicitValueInitExpr":
                        continue
                    self.init_into(LV(lv.region, lv.off + k * esz, t.elem), item)
                return
            # scalar in braces
            return self.init_into(lv, init["inner"][0])
        if init["kind"] == "ImplicitValueInitExpr":
            self.store_cells(lv.region, lv.off, [0] * self.T.sizeof(t))
            return
        v = self.rval(init)
        self.store(lv, v)

    # -------------------------------------------------------------- rvalues
    def rval(self, n):
        self.steps += 1
        if self.steps > self.max_steps:
            raise CUnsupported("step budget exceeded")
        k = n["kind"]
        if k == "ParenExpr":
            return self.rval(n["inner"][0])
        if k == "ConstantExpr":
            if "value" in n:
                return self.norm(int(n["value"]), self.ty(n))
            return self.rval(n["inner"][0])
        if k == "IntegerLiteral":
            return self.norm(int(n["value"]), self.ty(n))
        if k == "CharacterLiteral":
            return self.norm(int(n["value"]), self.ty(n))
        if k in ("ImplicitCastExpr", "CStyleCastExpr"):
            return self.cast(n)
        if k == "DeclRefExpr":
            rd = n["referencedDecl"]
            if rd["kind"] == "FunctionDecl":
                return FuncPtr(rd["name"])
            if rd["kind"] == "EnumConstantDecl":
                return self.norm(self.p.enum_consts[rd["name"]], self.ty(n))
            return self.load(self.lval(n))
        if k == "UnaryOperator":
            return self.unary(n)
        if k == "BinaryOperator":
            return self.binary(n)
        if k == "CompoundAssignOperator":
            return self.compound_assign(n)
        if k == "ConditionalOperator":
            c = self.rval(n["inner"][0])
            if is_sym(c):
                a, b = self.rval(n["inner"][1]), self.rval(n["inner"][2])
                t = self.ty(n)
                if not isinstance(t, TInt):
                    return Choice(c != 0, a, b)
                return self.norm(z3.If(c != 0, self.bv(a, t), self.bv(b, t)), t)
            return self.rval(n["inner"][1] if c != 0 else n["inner"][2])
        if k == "CallExpr":
            return self.call(n)
        if k == "UnaryExprOrTypeTraitExpr":
            if n.get("name") != "sizeof":
                raise CUnsupported(n.get("name"))
            if "argType" in n:
                t = self.T.parse(n["argType"]["qualType"])
            else:
                t = self.ty(n["inner"][0])
            return self.T.sizeof(t)
        if k in ("MemberExpr", "ArraySubscriptExpr", "CompoundLiteralExpr", "StringLiteral"):
            return self.load(self.lval(n))
        if k == "InitListExpr" or k == "ImplicitValueInitExpr":
            t = self.ty(n)
            r = self.alloc("init-temp", self.T.sizeof(t), None, kind="temp")
            self.init_into(LV(r, 0, t), n)
            return self.load(LV(r, 0, t))
        raise CUnsupported("expression kind %s" % k)

    def cast(self, n):
        ck = n.get("castKind")
        sub = n["inner"][0]
        if ck == "LValueToRValue":
            return self.load(self.lval(sub))
        if ck in ("IntegralCast", "IntegralToBoolean"):
            return self.conv(self.rval(sub), self.ty(sub), self.ty(n))
        if ck in ("BitCast", "NoOp"):
            return self.rval(sub)
        if ck == "ArrayToPointerDecay":
            lv = self.lval(sub)
            return Ptr(lv.region, lv.off)
        if ck in ("FunctionToPointerDecay", "BuiltinFnToFnPtr"):
            return self.rval(sub)
        if ck == "NullToPointer":
            return NULL
        if ck == "ToVoid":
            self.rval(sub)
            return None
        if ck == "PointerToBoolean":
            p = self.rval(sub)
            return 0 if (isinstance(p, Ptr) and p.region is None) else 1
        if ck == "IntegralToPointer":
            v = self.rval(sub)
            if v == 0:
                return NULL
        raise CUnsupported("cast kind %s" % ck)

    def unary(self, n):
        op = n["opcode"]
        sub = n["inner"][0]
        t = self.ty(n)
        if op == "&":
            if sub["kind"] == "DeclRefExpr" and sub["referencedDecl"]["kind"] == "FunctionDecl":
                return FuncPtr(sub["referencedDecl"]["name"])
            lv = self.lval(sub)
            return Ptr(lv.region, lv.off)
        if op == "*":
            return self.load(self.lval(n))
        if op in ("++", "--"):
            lv = self.lval(sub)
            old = self.load(lv)
            d = 1 if op == "++" else -1
            if isinstance(lv.type, TPtr):
                new = Ptr(old.region, old.off + d * self.T.sizeof(lv.type.to))
            else:
                new = self.arith("+", old, d, lv.type)
            self.store(lv, new)
            return old if n.get("isPostfix") else new
        v = self.rval(sub)
        if op == "!":
            if isinstance(v, Ptr):
                return 1 if v.region is None else 0
            if is_sym(v):
                return self.norm(z3.If(v == 0, z3.BitVecVal(1, t.bits), z3.BitVecVal(0, t.bits)), t)
            return 1 if v == 0 else 0
        if op == "-":
            if is_sym(v):
                if t.signed:
                    self.ob("ub", "signed overflow in unary -", v != z3.BitVecVal(1 << (t.bits - 1), t.bits))
                return self.norm(-v, t)
            if t.signed and v == -(1 << (t.bits - 1)):
                self.ob("ub", "signed overflow in unary -", False)
            return self.norm(-v, t)
        if op == "~":
            return self.norm(~v, t)
        if op == "+":
            return v
        raise CUnsupported("unary " + op)

    def arith(self, op, a, b, t: TInt):
        """integer arithmetic at type t (operands already converted to t, except shift counts)"""
        sym = is_sym(a) or is_sym(b)
        if op in ("<<", ">>"):
            return self.shift(op, a, b, t)
        if not sym:
            if op == "+":
                r = a + b
            elif op == "-":
                r = a - b
            elif op == "*":
                r = a * b
            elif op in ("/", "%"):
                if b == 0:
                    self.ob("ub", "division by zero", False)
                    raise StopRun("div0")
                q = abs(a) // abs(b)
                if (a < 0) != (b < 0):
                    q = -q
                r = q if op == "/" else a - q * b
            elif op == "&":
                r = a & b
            elif op == "|":
                r = a | b
            elif op == "^":
                r = a ^ b
            else:
                raise CUnsupported("arith " + op)
            if t.signed and op in "+-*/" and not (-(1 << (t.bits - 1)) <= r < (1 << (t.bits - 1))):
                self.ob("ub", "signed overflow in %s" % op, False)
            return self.norm(r, t)
        x, y = self.bv(a, t), self.bv(b, t)
        am = getattr(self, "abs_muldiv", None)
        if am is not None and op in ("*", "/") and is_sym(a) and is_sym(b) and t.signed:
            # products / quotients of two symbolic operands as uninterpreted ghost functions (sound for validity: whatever is proved
            # holds for the real operators); the contract supplies proved instances of their arithmetic laws
            if op == "*":
                from ..pysym import engine as _EN
                _EN.cur().assume(z3.And(am["mul"](x, y) == am["mul"](y, x), am["mul_ok"](x, y) == am["mul_ok"](y, x)))   # commutative
                self.ob("ub", "signed overflow in *", am["mul_ok"](x, y))
                return self.norm(am["mul"](x, y), t)
            self.ob("ub", "division by zero", y != 0)
            return self.norm(am["div"](x, y), t)
        if op == "+":
            if t.signed:
                self.ob("ub", "signed overflow in +", z3.And(z3.BVAddNoOverflow(x, y, True), z3.BVAddNoUnderflow(x, y)))
            r = x + y
        elif op == "-":
            if t.signed:
                self.ob("ub", "signed overflow in -", z3.And(z3.BVSubNoOverflow(x, y), z3.BVSubNoUnderflow(x, y, True)))
            r = x - y
        elif op == "*":
            if t.signed:
                self.ob("ub", "signed overflow in *", z3.And(z3.BVMulNoOverflow(x, y, True), z3.BVMulNoUnderflow(x, y)))
            r = x * y
        elif op in ("/", "%"):
            self.ob("ub", "division by zero", y != 0)
            if t.signed:
                r = (x / y) if op == "/" else z3.SRem(x, y)
            else:
                r = z3.UDiv(x, y) if op == "/" else z3.URem(x, y)
        elif op == "&":
            r = x & y
        elif op == "|":
            r = x | y
        elif op == "^":
            r = x ^ y
        else:
            raise CUnsupported("arith " + op)
        return self.norm(r, t)

    def shift(self, op, a, b, t: TInt):
        if is_sym(b):
            raise CUnsupported("symbolic shift count")
        if not (0 <= b < t.bits):
            self.ob("ub", "shift count %d out of range for %d-bit type" % (b, t.bits), False)
            raise StopRun("shift")
        if not is_sym(a):
            if op == "<<":
                if t.signed:
                    if a < 0 or (a << b) >= (1 << (t.bits - 1)):
                        self.ob("ub", "left shift of signed value overflows / is negative", False)
                return self.norm(a << b, t)
            return self.norm(a >> b, t)      # python >> is arithmetic: implementation-defined, gcc/clang behaviour
        if op == "<<":
            if t.signed:
                # C11 6.5.7p4: E1 non-negative and E1 * 2^E2 representable
                self.ob("ub", "left shift of signed value overflows / is negative",
                        z3.And(a >= 0, z3.LShR(a, t.bits - 1 - b) == 0))
            return self.norm(a << b, t)
        return self.norm((a >> b) if t.signed else z3.LShR(a, b), t)

    def binary(self, n):
        op = n["opcode"]
        a_n, b_n = n["inner"]
        t = self.ty(n)
        if op == "=":
            lv = self.lval(a_n)
            v = self.rval(b_n)
            self.store(lv, v)
            return v
        if op == ",":
            self.rval(a_n)
            return self.rval(b_n)
        if op in ("&&", "||"):
            a = self.truth(self.rval(a_n))
            if not is_sym(a):
                if (op == "&&" and not a) or (op == "||" and a):
                    return 1 if a else 0
                b = self.truth(self.rval(b_n))
                if is_sym(b):
                    return self.norm(z3.If(b, z3.BitVecVal(1, 32), z3.BitVecVal(0, 32)), t)
                return 1 if b else 0
            b = self.truth(self.rval(b_n))       # no side effects in the operands of the analysed sources
            bb = b if is_sym(b) else z3.BoolVal(bool(b))
            r = z3.And(a, bb) if op == "&&" else z3.Or(a, bb)
            return self.norm(z3.If(r, z3.BitVecVal(1, 32), z3.BitVecVal(0, 32)), t)
        a, b = self.rval(a_n), self.rval(b_n)
        if isinstance(a, (Ptr, FuncPtr)) or isinstance(b, (Ptr, FuncPtr)):
            return self.ptr_binary(op, a, b, a_n, b_n, t)
        if op in ("<", ">", "<=", ">=", "==", "!="):
            ot = self.ty(a_n)
            if not (is_sym(a) or is_sym(b)):
                r = {"<": a < b, ">": a > b, "<=": a <= b, ">=": a >= b, "==": a == b, "!=": a != b}[op]
                return 1 if r else 0
            x, y = self.bv(a, ot), self.bv(b, ot)
            if ot.signed:
                c = {"<": x < y, ">": x > y, "<=": x <= y, ">=": x >= y, "==": x == y, "!=": x != y}[op]
            else:
                c = {"<": z3.ULT(x, y), ">": z3.UGT(x, y), "<=": z3.ULE(x, y), ">=": z3.UGE(x, y), "==": x == y, "!=": x != y}[op]
            return self.norm(z3.If(c, z3.BitVecVal(1, 32), z3.BitVecVal(0, 32)), t)
        if op in ("<<", ">>"):
            return self.shift(op, a, b, t)
        return self.arith(op, a, b, t)

    def truth(self, v):
        if isinstance(v, Ptr):
            return v.region is not None
        if isinstance(v, FuncPtr):
            return True
        if is_sym(v):
            return v != 0
        return v != 0

    def ptr_binary(self, op, a, b, a_n, b_n, t):
        if op in ("+", "-") and isinstance(a, Ptr) and not isinstance(b, (Ptr, FuncPtr)):
            if is_sym(b):
                raise CUnsupported("symbolic pointer arithmetic")
            sz = self.T.sizeof(self.ty(a_n).to) if not isinstance(self.ty(a_n).to, TVoid) else 1
            return Ptr(a.region, a.off + (b if op == "+" else -b) * sz)
        if op == "+" and isinstance(b, Ptr):
            return self.ptr_binary("+", b, a, b_n, a_n, t)
        if op in ("==", "!="):
            same = (isinstance(a, Ptr) and isinstance(b, Ptr) and a.region is b.region and a.off == b.off) or \
                   (isinstance(a, FuncPtr) and isinstance(b, FuncPtr) and a.name == b.name)
            return 1 if (same == (op == "==")) else 0
        if op == "-" and isinstance(a, Ptr) and isinstance(b, Ptr) and a.region is b.region:
            sz = self.T.sizeof(self.ty(a_n).to)
            return (a.off - b.off) // sz
        raise CUnsupported("pointer operation " + op)

    def compound_assign(self, n):
        op = n["opcode"][:-1]
        lv = self.lval(n["inner"][0])
        old = self.load(lv)
        rhs = self.rval(n["inner"][1])
        if isinstance(lv.type, TPtr):
            if is_sym(rhs):
                raise CUnsupported("symbolic pointer arithmetic")
            sz = self.T.sizeof(lv.type.to)
            new = Ptr(old.region, old.off + (rhs if op == "+" else -rhs) * sz)
            self.store(lv, new)
            return new
        ct = self.T.parse(n["computeResultType"]["qualType"])
        lt = self.T.parse(n["computeLHSType"]["qualType"])
        a = self.conv(old, lv.type, lt)
        if op in ("<<", ">>"):
            r = self.shift(op, a, rhs, ct)
        else:
            rt = self.ty(n["inner"][1])
            r = self.arith(op, self.conv(a, lt, ct), self.conv(rhs, rt, ct) if isinstance(rt, TInt) else rhs, ct)
        new = self.conv(r, ct, lv.type)
        self.store(lv, new)
        return new

    def c_string(self, p) -> str:
        """the NUL-terminated concrete string a pointer refers to"""
        out = []
        k = p.off
        while True:
            self._check(p.region, k, 1, "read")
            c = p.region.data[k]
            if not isinstance(c, int):
                raise CUnsupported("symbolic / uninitialised character in a C string")
            if c == 0:
                return bytes(out).decode("latin-1")
            out.append(c)
            k += 1

    # -------------------------------------------------------------- calls
    def call(self, n):
        callee = self.rval(n["inner"][0])
        args = [self.rval(a) for a in n["inner"][1:]]
        if isinstance(callee, FuncPtr) and callee.name in self.externals:
            return self.externals[callee.name](self, args, [self.ty(a) for a in n["inner"][1:]])
        if not isinstance(callee, FuncPtr):
            if isinstance(callee, Ptr) and callee.region is None:
                self.ob("ub", "call through a null function pointer", False)
                raise StopRun("null call")
            raise CUnsupported("call of non-function")
        return self.call_func(callee.name, args)

    def call_func(self, name, args):
        if name in self.externals:
            return self.externals[name](self, args, None)
        if name == "memset":
            p, v, cnt = args
            if is_sym(cnt) or is_sym(v):
                raise CUnsupported("symbolic memset")
            self.store_cells(p.region, p.off, [v & 255] * cnt)
            return p
        if name == "memcpy":
            d, s, cnt = args
            self.store_cells(d.region, d.off, self.load_cells(s.region, s.off, cnt))
            return d
        f = self.p.funcs.get(name)
        if f is None:
            raise CUnsupported("call of external function %s" % name)
        params = [c for c in f.get("inner", []) if c.get("kind") == "ParmVarDecl"]
        body = [c for c in f["inner"] if c.get("kind") == "CompoundStmt"][0]
        frame = {}
        if f.get("variadic") and len(args) >= len(params):
            frame["__va_args__"] = list(args[len(params):])      # read only through va_start (an external with a contract)
            args = args[:len(params)]
        if len(params) != len(args):
            raise CUnsupported("argument count mismatch calling %s" % name)
        for p, a in zip(params, args):
            t = self.T.parse(p["type"]["qualType"])
            r = self.alloc("%s.%s" % (name, p.get("name", "?")), self.T.sizeof(t), None, kind="param")
            if isinstance(t, TInt) and isinstance(a, bool):
                a = int(a)
            self.store_raw(LV(r, 0, t), a)
            frame[p["id"]] = r
        self.frames.append(frame)
        self.call_depth += 1
        if self.call_depth > 200:
            raise CUnsupported("call depth")
        try:
            self.stmt(body)
            ret = None
        except _Return as r:
            ret = r.v
        finally:
            self.frames.pop()
            self.call_depth -= 1
        return ret

    def store_raw(self, lv, v):
        if isinstance(lv.type, TInt) and not is_sym(v):
            v = self.norm(v, lv.type)
        self.store(lv, v)

    # -------------------------------------------------------------- statements
    def stmt(self, n):
        self.steps += 1
        if self.steps > self.max_steps:
            raise CUnsupported("step budget exceeded")
        k = n.get("kind")
        if k is None:
            return
        if k == "CompoundStmt":
            for c in n.get("inner", []):
                self.stmt(c)
        elif k == "DeclStmt":
            for d in n.get("inner", []):
                if d["kind"] != "VarDecl":
                    continue
                t = self.T.parse(d["type"]["qualType"])
                if d.get("storageClass") == "static":
                    # a static local outlives the call.  const: initialised once, kept.  Otherwise its contents at this call are
                    # whatever EARLIER calls left there - the property quantifies over every history, so: arbitrary bytes (the
                    # initialiser ran once at program start and says nothing about now)
                    if not hasattr(self, "statics"):
                        self.statics = {}
                    if d["id"] in self.statics:
                        self.frames[-1][d["id"]] = self.statics[d["id"]]
                        continue
                    size = self.T.sizeof(t)
                    is_const = bool(re.search(r"\bconst\b", d["type"]["qualType"]))
                    r = self.alloc(d["name"], size, None if is_const else 0, kind="local")
                    self.statics[d["id"]] = r
                    self.frames[-1][d["id"]] = r
                    if is_const:
                        inits = [c for c in d.get("inner", []) if "Comment" not in c.get("kind", "")]
                        if inits:
                            self.init_into(LV(r, 0, t), inits[0])
                    else:
                        self.store_cells(r, 0, [z3.BitVec("static.%s[%d]" % (d["name"], k), 8) for k in range(size)])
                    continue
                r = self.alloc(d["name"], self.T.sizeof(t), None, kind="local")
                self.frames[-1][d["id"]] = r
                if d.get("inner"):
                    inits = [c for c in d["inner"] if "Comment" not in c.get("kind", "")]
                    if inits:
                        self.init_into(LV(r, 0, t), inits[0])
        elif k == "IfStmt":
            self.if_stmt(n)
        elif k == "ForStmt":
            init, _cv, cond, inc, body = n["inner"]
            self.stmt(init)
            while True:
                if cond.get("kind"):
                    c = self.rval(cond)
                    if is_sym(c):
                        raise CUnsupported("symbolic loop condition")
                    if c == 0:
                        break
                try:
                    self.stmt(body)
                except _Break:
                    break
                except _Continue:
                    pass
                if inc.get("kind"):
                    self.rval(inc)
        elif k == "WhileStmt":
            cond, body = n["inner"][-2], n["inner"][-1]
            while True:
                c = self.rval(cond)
                if is_sym(c):
                    raise CUnsupported("symbolic loop condition")
                if c == 0:
                    break
                try:
                    self.stmt(body)
                except _Break:
                    break
                except _Continue:
                    pass
        elif k == "SwitchStmt":
            self.switch(n)
        elif k == "ReturnStmt":
            v = self.rval(n["inner"][0]) if n.get("inner") else None
            raise _Return(v)
        elif k == "BreakStmt":
            raise _Break()
        elif k == "ContinueStmt":
            raise _Continue()
        elif k == "NullStmt":
            pass
        elif k in ("CaseStmt", "DefaultStmt"):
            self.stmt(n["inner"][-1])
        else:
            self.rval(n)

    def switch(self, n):
        c = self.rval(n["inner"][0])
        if is_sym(c):
            raise CUnsupported("symbolic switch")
        return self.switch_value(n, c)

    def switch_value(self, n, c):
        body = n["inner"][-1]
        items = body.get("inner", [])

        def labels(s):
            """(set of case values or 'default', innermost statement) of a (nested) case chain"""
            vals = []
            while s.get("kind") in ("CaseStmt", "DefaultStmt"):
                if s["kind"] == "CaseStmt":
                    vals.append(self.rval(s["inner"][0]))
                else:
                    vals.append("default")
                s = s["inner"][-1]
            return vals, s
        start = None
        default = None
        for idx, s in enumerate(items):
            if s.get("kind") in ("CaseStmt", "DefaultStmt"):
                vals, _ = labels(s)
                if c in [v for v in vals if v != "default"]:
                    start = idx
                    break
                if "default" in vals and default is None:
                    default = idx
        if start is None:
            start = default
        if start is None:
            return
        try:
            for s in items[start:]:
                if s.get("kind") in ("CaseStmt", "DefaultStmt"):
                    _, inner = labels(s)
                    self.stmt(inner)
                else:
                    self.stmt(s)
        except _Break:
            pass

    # ---- symbolic if: merge
    def _simple(self, n) -> bool:
        if not isinstance(n, dict):
            return True
        if n.get("kind") in ("ReturnStmt", "BreakStmt", "ContinueStmt", "GotoStmt", "CallExpr"):
            return False
        return all(self._simple(c) for c in n.get("inner", []))

    def _regions_live(self):
        seen = {}
        for fr in self.frames:
            for r in fr.values():
                seen[r.id] = r
        # regions reachable through pointers stored in memory
        todo = list(seen.values())
        while todo:
            r = todo.pop()
            for c in r.data:
                if isinstance(c, tuple) and isinstance(c[1], Ptr) and c[1].region is not None and c[1].region.id not in seen:
                    seen[c[1].region.id] = c[1].region
                    todo.append(c[1].region)
        return list(seen.values())

    def if_stmt(self, n):
        inner = n["inner"]
        cond, then = inner[0], inner[1]
        els = inner[2] if len(inner) > 2 else None
        c = self.rval(cond)
        if isinstance(c, (Ptr, FuncPtr)):
            c = 1 if self.truth(c) else 0
        if not is_sym(c):
            if c != 0:
                self.stmt(then)
            elif els is not None:
                self.stmt(els)
            return
        if not (self._simple(then) and (els is None or self._simple(els))):
            raise CUnsupported("symbolic branch with return/break/call inside")
        cb = (c != 0)
        regs = self._regions_live()
        snap = {r.id: list(r.data) for r in regs}
        self.guards.append(cb)
        try:
            self.stmt(then)
        finally:
            self.guards.pop()
        after_then = {r.id: list(r.data) for r in regs}
        for r in regs:
            r.data = list(snap[r.id])
        if els is not None:
            self.guards.append(z3.Not(cb))
            try:
                self.stmt(els)
            finally:
                self.guards.pop()
        for r in regs:
            t_, e_ = after_then[r.id], r.data
            for k in range(r.size):
                a, b = t_[k], e_[k]
                if a is b or (isinstance(a, int) and isinstance(b, int) and a == b):
                    continue
                if is_sym(a) and is_sym(b) and z3.eq(a, b):
                    continue
                if a is None or b is None or isinstance(a, tuple) or isinstance(b, tuple):
                    raise CUnsupported("merge of pointer / uninitialised cells")
                av = a if is_sym(a) else z3.BitVecVal(a, 8)
                bv_ = b if is_sym(b) else z3.BitVecVal(b, 8)
                r.data[k] = z3.simplify(z3.If(cb, av, bv_))
