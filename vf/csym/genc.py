"""Per-program proofs for C: generated code (standard mode = descriptors + the real runtime lib/c/bitproto.c;
optimization mode = straight-line statements) is executed by the csym interpreter on symbolic struct contents /
buffers and compared with the reference layout."""
from __future__ import annotations

import os
import shutil
import tempfile
from typing import Dict, List, Optional, Tuple

import z3

from . import interp as CI
from .ctypes_ import TInt, TArr, TStruct
from ..pysym import engine as EN
from ..pysym import loader
from ..spec import layout as L
from ..spec.bits import W
from ..templates import build

_RT_AST: Dict[bool, dict] = {}


def runtime_ast(big: bool) -> dict:
    if big not in _RT_AST:
        src = os.path.join(loader.REPO, "lib/c/bitproto.c")
        _RT_AST[big] = CI.clang_ast(src, [os.path.join(loader.REPO, "lib/c")], ["BP_BIG_ENDIAN"] if big else [])
    return _RT_AST[big]


def build_program(schema: L.Schema, optimize: bool, endian: str, big: bool) -> Tuple[CI.Program, Dict[str, str]]:
    outs = build.compile_schema(schema, "c", optimize=optimize, endian=endian)
    d = tempfile.mkdtemp(dir=build.scratch())
    try:
        for fn, txt in outs.items():
            with open(os.path.join(d, fn), "w") as f:
                f.write(txt)
        prog = CI.Program()
        if not optimize:
            prog.add_ast(runtime_ast(big), "lib/c/bitproto.c")
        for p in build._all_protos(schema):
            cfile = p.fname().replace(".bitproto", "_bp.c")
            ast = CI.clang_ast(os.path.join(d, cfile), [os.path.join(loader.REPO, "lib/c"), d],
                               ["BP_BIG_ENDIAN"] if big else [])
            prog.add_ast(ast, cfile)
        prog.native = {"outs": outs, "optimize": optimize, "main": schema.fname().replace(".bitproto", "_bp")}
        return prog, outs
    finally:
        shutil.rmtree(d, ignore_errors=True)


def c_prefix(schema) -> str:
    """documented C naming: option c.name_prefix = "app_"  ->  type / function names start with App"""
    import re
    for o in getattr(schema, "options", None) or []:
        m = re.match(r'\s*c\.name_prefix\s*=\s*"([^"]*)"', o)
        if m:
            return "".join(w[:1].upper() + w[1:] for w in m.group(1).split("_") if w)
    return ""


def c_struct_name(msg: L.Message) -> str:
    return c_prefix(getattr(msg, "proto", None)) + "".join(L._path(msg))


def _collector(E: EN.Engine):
    def cb(kind, label, goal, guards):
        if isinstance(goal, bool):
            goal = z3.BoolVal(goal)
        g = z3.Implies(z3.And(*guards), goal) if guards else goal
        E.oblige("%s:%s" % (kind, label), g, kind=kind)
    return cb


def _fill(it: CI.Interp, region, off, ctype, t: L.Ty, v, leaves, arbitrary: bool, E, path=""):
    """write the value tree v (leaf terms BitVec(W)) into the struct image; returns nothing.
    leaves: list of (path, storage term, leaf type, ctype)"""
    r = L.resolve(t)
    if isinstance(r, L.Message):
        if not isinstance(ctype, TStruct):
            raise CI.CUnsupported("C type of message %s is %r" % (r.name, ctype))
        size, _, fields = it.T.layout(ctype.name)
        want_name = c_struct_name(r)
        if ctype.name != want_name:
            # the member is declared with ANOTHER struct than the definition the schema resolves the reference to (C11 / C03)
            E.oblige("binding%s: declared as struct %s, the schema resolves it to %s" % (path or ".", ctype.name, want_name), z3.BoolVal(False))
            raise CI.StopRun("wrong struct bound")
        for f in r.sorted_fields():
            if f.name not in fields:
                raise CI.CUnsupported("struct %s has no member %s" % (ctype.name, f.name))
            foff, ft = fields[f.name]
            _fill(it, region, off + foff, ft, f.type, v[f.name], leaves, arbitrary, E, path + "." + f.name)
        return
    if isinstance(r, L.Array):
        if not isinstance(ctype, TArr) or ctype.n != r.cap:
            raise CI.CUnsupported("C type of array at %s is %r" % (path, ctype))
        esz = it.T.sizeof(ctype.elem)
        for k in range(r.cap):
            _fill(it, region, off + k * esz, ctype.elem, r.elem, v[k], leaves, arbitrary, E, "%s[%d]" % (path, k))
        return
    if not isinstance(ctype, TInt):
        raise CI.CUnsupported("C type of leaf at %s is %r" % (path, ctype))
    bits = ctype.bits
    st = z3.Extract(bits - 1, 0, v) if z3.is_expr(v) else (v & ((1 << bits) - 1))
    it.store(CI.LV(region, off, TInt(bits, False)), st)
    leaves.append((path, st, r, ctype))


def _read(it: CI.Interp, region, off, ctype, t: L.Ty, out, path=""):
    r = L.resolve(t)
    if isinstance(r, L.Message):
        size, _, fields = it.T.layout(ctype.name)
        if ctype.name != c_struct_name(r):
            EN.cur().oblige("binding%s: declared as struct %s, the schema resolves it to %s" % (path or ".", ctype.name, c_struct_name(r)),
                            z3.BoolVal(False))
            raise CI.StopRun("wrong struct bound")
        for f in r.sorted_fields():
            foff, ft = fields[f.name]
            _read(it, region, off + foff, ft, f.type, out, path + "." + f.name)
        return
    if isinstance(r, L.Array):
        esz = it.T.sizeof(ctype.elem)
        for k in range(r.cap):
            _read(it, region, off + k * esz, ctype.elem, r.elem, out, "%s[%d]" % (path, k))
        return
    out.append((path, it.load(CI.LV(region, off, ctype)), r, ctype))


def storage_value(term, ctype: TInt, r: L.Ty):
    """the C VALUE of a leaf object as a BitVec(W) (sign-extended for signed C types)"""
    t = term if z3.is_expr(term) else z3.BitVecVal(term, ctype.bits)
    return z3.SignExt(W - ctype.bits, t) if ctype.signed else z3.ZeroExt(W - ctype.bits, t)


def _cval(x):
    x = z3.simplify(x) if z3.is_expr(x) else x
    if z3.is_expr(x):
        if not z3.is_bv_value(x):
            raise ValueError("not concrete")
        return x.as_long()
    return int(x)


def native_run(E, prog, msg: L.Message, mode: str, leaves, data: list, label: str):
    """Replay on the REAL tool chain (little-endian host only): the generated C (+ lib/c/bitproto.c in standard mode) is compiled
    with cc and run on the counter-model's concrete inputs; the bytes / fields it prints are compared with the reference layout.
    Called only during concrete re-execution of a refuted obligation; never part of a proof."""
    import subprocess
    info = {"label": label, "mode": mode, "ran": False}
    if not hasattr(E, "native_runs"):
        E.native_runs = []
    E.native_runs.append(info)
    nat = getattr(prog, "native", None)
    if nat is None:
        info["why_not"] = "sources not kept"
        return
    d = tempfile.mkdtemp(dir=build.scratch())
    try:
        for fn, txt in nat["outs"].items():
            with open(os.path.join(d, fn), "w") as f:
                f.write(txt)
        sname = c_struct_name(msg)
        n = len(data)
        src = ['#include "%s.h"' % nat["main"], "#include <stdio.h>", "#include <string.h>", "#include <stdint.h>", "int main(void) {",
               "  struct %s m; memset(&m, 0, sizeof m);" % sname, "  unsigned char s[%d];" % max(n, 1), "  memset(s, 0, sizeof s);"]
        if mode == "encode":
            for path, st, r, ctype in leaves:
                src.append("  { uint64_t t = 0x%xULL; memcpy(&m%s, &t, sizeof(m%s)); }" % (_cval(st) & (2 ** 64 - 1), path, path))
            src += ["  Encode%s(&m, s);" % sname, "  for (int k = 0; k < %d; k++) printf(\"%%02x\\n\", s[k]);" % n]
        else:
            for k, b in enumerate(data):
                src.append("  s[%d] = 0x%02x;" % (k, _cval(b) & 255))
            src.append("  Decode%s(&m, s);" % sname)
            for path, _, r, ctype in leaves:
                src.append("  printf(\"%%llx\\n\", (unsigned long long)(%s)m%s);" % ("long long" if ctype.signed else "unsigned long long", path))
        src += ["  return 0;", "}"]
        with open(os.path.join(d, "replay_main.c"), "w") as f:
            f.write("\n".join(src) + "\n")
        cfiles = ["replay_main.c"] + [fn for fn in nat["outs"] if fn.endswith(".c")]
        cmd = ["cc", "-O0", "-w", "-I", os.path.join(loader.REPO, "lib/c"), "-I", d, "-o", "replay_bin"] + cfiles
        if not nat["optimize"]:
            cmd.append(os.path.join(loader.REPO, "lib/c/bitproto.c"))
        cp = subprocess.run(cmd, cwd=d, capture_output=True, text=True, timeout=120)
        if cp.returncode != 0:
            info["why_not"] = "cc failed: " + cp.stderr[-400:]
            return
        rp = subprocess.run([os.path.join(d, "replay_bin")], cwd=d, capture_output=True, text=True, timeout=20)
        info.update(ran=True, exit=rp.returncode, harness="\n".join(src))
        got = [int(x, 16) for x in rp.stdout.split()]
        info["got"] = got
        return got
    except Exception as e:          # best effort: a failed native replay never changes a verdict
        info["why_not"] = repr(e)
    finally:
        shutil.rmtree(d, ignore_errors=True)


def run_encode(E: EN.Engine, prog: CI.Program, msg: L.Message, big: bool, label="encode"):
    """Encode<M>(m, s) with s zeroed and *m holding ARBITRARY storage contents in integer fields (bool objects hold
    0/1: type invariant) writes exactly the reference bytes of the fields' low n bits, inside s[0..nbytes)."""
    it = CI.Interp(prog, big=big, oblige=_collector(E))
    sname = c_struct_name(msg)
    if sname not in prog.types.records:
        raise CI.CUnsupported("generated header has no struct %s" % sname)
    st = TStruct(sname)
    m = it.alloc("*m", it.T.sizeof(st), None, kind="arg")
    leaves: list = []
    vleaves: list = []
    v = L.fresh_value(msg, _vname(E, msg), vleaves, _mk(E))
    for name, term, r in vleaves:
        if isinstance(r, L.Bool):
            E.assume(L.in_range(term, r))
    try:
        _fill(it, m, 0, st, msg, v, leaves, True, E)
    except CI.StopRun:
        return
    m.writes.clear()
    n = L.nbytes(msg)
    s = it.alloc("s", n, 0, kind="arg")
    E.cover(label + "/requires")
    it.frames.append({})
    try:
        it.call_func("Encode" + sname, [CI.Ptr(m, 0), CI.Ptr(s, 0)])
    except CI.StopRun:
        return
    # the value the spec encodes is the field's low n bits of its storage
    exp = L.bytes_of(L.enc(msg, v), n)
    if E.concrete is not None and not big:
        try:
            got_n = native_run(E, prog, msg, "encode", leaves, list(exp), "%s/%s" % (E.proof_id, label))
            if got_n is not None:
                want_n = [_cval(b) for b in exp]
                E.native_runs[-1].update(want=want_n, differs_from_reference=(got_n != want_n))
        except ValueError:
            pass
    for k in range(n):
        got = s.data[k]
        got = got if z3.is_expr(got) else z3.BitVecVal(got, 8)
        E.oblige("%s/byte[%d]" % (label, k), got == exp[k])
    E.oblige(label + "/struct-untouched", z3.BoolVal(not m.writes), kind="frame")


def run_decode(E: EN.Engine, prog: CI.Program, msg: L.Message, big: bool, label="decode",
               sender: Optional[L.Message] = None, project=None, dirty_target: bool = False):
    """Decode<M>(m, s) with *m zeroed and s the reference encoding of an in-range value reconstructs exactly that value
    (sign-extended in its storage type); s is not written, nothing outside *m and s[0..nbytes) is touched."""
    it = CI.Interp(prog, big=big, oblige=_collector(E))
    sname = c_struct_name(msg)
    if sname not in prog.types.records:
        raise CI.CUnsupported("generated header has no struct %s" % sname)
    st = TStruct(sname)
    src = sender or msg
    vleaves: list = []
    v = L.fresh_value(src, _vname(E, src), vleaves, _mk(E))
    for name, term, r in vleaves:
        E.assume(L.in_range(term, r))
    n = L.nbytes(src)
    bs = [b.as_long() if z3.is_bv_value(b) else b for b in L.bytes_of(L.enc(src, v), n)]
    s = it.alloc("s", n, bs, kind="arg")
    m = it.alloc("*m", it.T.sizeof(st), 0, kind="arg")
    if dirty_target:
        # optimization-mode decoders establish their own zero baseline (memset / first write by assignment): the struct may hold
        # anything before the call
        E.run_n = getattr(E, "run_n", 0) + 1
        it.store_cells(m, 0, [z3.BitVec("dirty%d.m[%d]" % (E.run_n, k), 8) for k in range(it.T.sizeof(st))])
        m.writes.clear()
    E.cover(label + "/requires")
    it.frames.append({})
    try:
        it.call_func("Decode" + sname, [CI.Ptr(m, 0), CI.Ptr(s, 0)])
    except CI.StopRun:
        return
    out: list = []
    try:
        _read(it, m, 0, st, msg, out)
    except CI.StopRun:
        return
    want = project(v) if project else v
    if E.concrete is not None and not big:
        try:
            got_n = native_run(E, prog, msg, "decode", out, list(bs), "%s/%s" % (E.proof_id, label))
            if got_n is not None:
                want_n = [_cval(w) & (2 ** 64 - 1) for (_, w, _) in L.leaves_of(msg, want)]
                E.native_runs[-1].update(want=want_n, differs_from_reference=(got_n != want_n))
        except ValueError:
            pass
    for (path, got, r, ctype), (_, w, _) in zip(out, L.leaves_of(msg, want)):
        E.oblige("%s/field%s" % (label, path), storage_value(got, ctype, r) == w)
        # the storage type is the smallest covering one with the right signedness (C03)
        E.oblige("%s/storage-type%s" % (label, path),
                 z3.BoolVal(ctype.bits == L.storage_bits(r) and (ctype.signed == isinstance(r, L.Int) or ctype.is_bool
                                                                 or isinstance(r, L.Bool))))
    E.oblige(label + "/buffer-untouched", z3.BoolVal(not s.writes), kind="frame")
    if sender is None:
        E.oblige(label + "/reads-within-size", z3.BoolVal(all(k < L.nbytes(msg) for k in s.reads)), kind="frame")


def _vname(E, msg) -> str:
    """name prefix of the symbolic value of ONE run: unique per message and per run, so that the preconditions assumed for one run
    (e.g. in-range values when decoding) never constrain another run of the same proof path whose fields happen to have the same
    names (they did until wave 4 of the seeded changes exposed it: S1's encode was only proved for in-range x after S0's decode)"""
    E.run_n = getattr(E, "run_n", 0) + 1              # reset by Engine.explore at the start of every path
    return "v%d<%s>" % (E.run_n, "".join(L._path(msg)))


def _mk(E):
    def mk(name):
        if E.concrete is not None:
            return E.concrete.get(name, z3.BitVecVal(0, W))
        return z3.BitVec(name, W)
    return mk


# ----------------------------------------------------------------------------- C16: Json<M>
import re as _re

_CONV = _re.compile(r"%(l{0,2})([dius])")


def json_tokens(t: L.Ty, v, out=None):
    """the token stream the property prescribes: object keyed by field names in number order, arrays as lists,
    numbers (signed where the value is negative), true/false"""
    out = [] if out is None else out
    r = L.resolve(t)
    if isinstance(r, L.Message):
        out.append(("lit", "{"))
        fs = r.sorted_fields()
        for i, f in enumerate(fs):
            out.append(("lit", '"%s":' % f.name))
            json_tokens(f.type, v[f.name], out)
            if i + 1 < len(fs):
                out.append(("lit", ","))
        out.append(("lit", "}"))
    elif isinstance(r, L.Array):
        out.append(("lit", "["))
        for k in range(r.cap):
            json_tokens(r.elem, v[k], out)
            if k + 1 < r.cap:
                out.append(("lit", ","))
        out.append(("lit", "]"))
    elif isinstance(r, L.Bool):
        out.append(("bool", v != 0))
    else:
        out.append(("num", v))
    return out


def _merge_lits(tokens):
    out = []
    for t in tokens:
        if t[0] == "lit" and out and out[-1][0] == "lit":
            out[-1] = ("lit", out[-1][1] + t[1])
        elif t[0] == "lit" and t[1] == "":
            continue
        else:
            out.append(t)
    return out


def run_json(E: EN.Engine, prog: CI.Program, msg: L.Message, label="json"):
    """Json<M>(m, buf): the sequence of BpJsonFormatString calls (format string + promoted arguments; what vsprintf prints for a
    conversion is external) denotes exactly the prescribed JSON value for every in-range struct content."""
    it = CI.Interp(prog, big=False, oblige=_collector(E))
    sname = c_struct_name(msg)
    if sname not in prog.types.records:
        raise CI.CUnsupported("generated header has no struct %s" % sname)
    st = TStruct(sname)
    m = it.alloc("*m", it.T.sizeof(st), None, kind="arg")
    vleaves: list = []
    v = L.fresh_value(msg, _vname(E, msg), vleaves, _mk(E))
    for name, term, r in vleaves:
        E.assume(L.in_range(term, r))
    try:
        _fill(it, m, 0, st, msg, v, [], False, E)
    except CI.StopRun:
        return
    m.writes.clear()
    tokens: list = []

    def fmtstring(interp, args, types):
        fmt = interp.c_string(args[1])
        rest = list(zip(args[2:], (types or [None] * len(args))[2:]))
        pos = 0
        for mm in _CONV.finditer(fmt):
            tokens.append(("lit", fmt[pos:mm.start()]))
            pos = mm.end()
            if not rest:
                E.oblige("%s/format-args" % label, False, kind="ub")
                continue
            a, at = rest.pop(0)
            ls, conv = mm.group(1), mm.group(2)
            if conv == "s":
                if isinstance(a, CI.Choice):
                    sa, sb = interp.c_string(a.a), interp.c_string(a.b)
                    if (sa, sb) == ("true", "false"):
                        tokens.append(("bool", a.cond))
                    elif (sa, sb) == ("false", "true"):
                        tokens.append(("bool", z3.Not(a.cond)))
                    else:
                        tokens.append(("lit?", (sa, sb)))
                else:
                    tokens.append(("lit", interp.c_string(a)))
                continue
            cw = 64 if ls else 32
            csigned = conv in "di"
            abits, asigned = at.bits, at.signed
            av = a if z3.is_expr(a) else z3.BitVecVal(a, abits)
            if abits > cw:
                E.oblige("%s/conversion-narrower-than-argument(%%%s%s on %d-bit)" % (label, ls, conv, abits), False, kind="ub")
                av, abits = z3.Extract(cw - 1, 0, av), cw
            if abits < cw:
                av = z3.SignExt(cw - abits, av) if asigned else z3.ZeroExt(cw - abits, av)
            tokens.append(("num", z3.SignExt(W - cw, av) if csigned else z3.ZeroExt(W - cw, av)))
        tokens.append(("lit", fmt[pos:]))
        return None
    it.externals["BpJsonFormatString"] = fmtstring
    buf = it.alloc("json-buffer", 8, 0, kind="arg")
    E.cover(label + "/requires")
    it.frames.append({})
    try:
        it.call_func("Json" + sname, [CI.Ptr(m, 0), CI.Ptr(buf, 0)])
    except CI.StopRun:
        return
    got = _merge_lits(tokens)
    want = _merge_lits(json_tokens(msg, v))
    E.oblige("%s/token-count" % label, z3.BoolVal(len(got) == len(want)))
    for k, (g, w) in enumerate(zip(got, want)):
        if g[0] != w[0]:
            E.oblige("%s/token[%d]-kind(%s vs %s)" % (label, k, g[0], w[0]), False)
        elif g[0] == "lit":
            E.oblige("%s/token[%d]=%s" % (label, k, w[1][:30]), z3.BoolVal(g[1] == w[1]))
        else:
            E.oblige("%s/token[%d]-value" % (label, k), g[1] == w[1])
    E.oblige(label + "/struct-untouched", z3.BoolVal(not m.writes), kind="frame")
