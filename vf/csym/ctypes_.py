"""C types and record layout for the clang-AST interpreter (x86-64 LP64 sizes; natural alignment;
`#pragma pack` through MaxFieldAlignmentAttr)."""
from __future__ import annotations

import re
from typing import Dict, List, Optional, Tuple


class CType:
    pass


class TInt(CType):
    def __init__(self, bits, signed, is_bool=False):
        self.bits, self.signed, self.is_bool = bits, signed, is_bool

    def __repr__(self):
        return "%s%d" % ("bool" if self.is_bool else ("i" if self.signed else "u"), self.bits)


class TPtr(CType):
    def __init__(self, to):
        self.to = to

    def __repr__(self):
        return "ptr(%r)" % (self.to,)


class TArr(CType):
    def __init__(self, elem, n):
        self.elem, self.n = elem, n

    def __repr__(self):
        return "%r[%d]" % (self.elem, self.n)


class TStruct(CType):
    def __init__(self, name):
        self.name = name

    def __repr__(self):
        return "struct " + self.name


class TVoid(CType):
    def __repr__(self):
        return "void"


class TFunc(CType):
    def __repr__(self):
        return "func"


BASE = {
    "char": (8, True), "signed char": (8, True), "unsigned char": (8, False),
    "short": (16, True), "unsigned short": (16, False),
    "int": (32, True), "unsigned int": (32, False), "unsigned": (32, False),
    "long": (64, True), "unsigned long": (64, False),
    "long long": (64, True), "unsigned long long": (64, False),
    "__int128": (128, True), "unsigned __int128": (128, False),
}


class Types:
    def __init__(self):
        self.typedefs: Dict[str, str] = {}
        self.records: Dict[str, dict] = {}     # name -> {"fields": [(name, typestr)], "pack": int|None}
        self._layout: Dict[str, Tuple[int, int, Dict[str, Tuple[int, CType]]]] = {}
        self._cache: Dict[str, CType] = {}

    # ---- parsing of clang qualType strings
    def parse(self, s: str) -> CType:
        s0 = s
        if s in self._cache:
            return self._cache[s]
        s = re.sub(r"\b(const|volatile|restrict)\b", "", s).strip()
        s = re.sub(r"\s+", " ", s)
        t = self._parse(s)
        self._cache[s0] = t
        return t

    def _parse(self, s: str) -> CType:
        if "(*" in s or s.endswith(")"):
            # function pointer  `void (*)(void *, ...)`  or function type
            if "(*)" in s or "(*" in s:
                return TPtr(TFunc())
            return TFunc()
        m = re.match(r"^(.*?)\s*\[(\d+)\]((?:\[\d+\])*)$", s)
        if m:
            inner = m.group(1) + m.group(3)
            return TArr(self._parse(inner.strip()), int(m.group(2)))
        if s.endswith("*"):
            return TPtr(self._parse(s[:-1].strip()))
        if s in ("_Bool", "bool"):
            return TInt(8, False, is_bool=True)
        if s in ("va_list", "__builtin_va_list", "__gnuc_va_list", "struct __va_list_tag"):
            return TArr(TInt(8, False), 24)          # opaque: only its address is passed around (va_start / v*printf / va_end)
        if s == "void":
            return TVoid()
        if s in BASE:
            return TInt(*BASE[s])
        if s.startswith("struct "):
            return TStruct(s[7:].strip())
        if s.startswith("enum "):
            return TInt(32, False)
        if s in self.typedefs:
            return self._parse(re.sub(r"\b(const|volatile|restrict)\b", "", self.typedefs[s]).strip())
        raise KeyError("unknown C type %r" % s)

    # ---- size / alignment / layout
    def sizeof(self, t: CType) -> int:
        if isinstance(t, TInt):
            return t.bits // 8
        if isinstance(t, TPtr):
            return 8
        if isinstance(t, TArr):
            return t.n * self.sizeof(t.elem)
        if isinstance(t, TStruct):
            return self.layout(t.name)[0]
        raise TypeError("sizeof %r" % (t,))

    def alignof(self, t: CType) -> int:
        if isinstance(t, TInt):
            return t.bits // 8
        if isinstance(t, TPtr):
            return 8
        if isinstance(t, TArr):
            return self.alignof(t.elem)
        if isinstance(t, TStruct):
            return self.layout(t.name)[1]
        raise TypeError("alignof %r" % (t,))

    def layout(self, name: str):
        if name in self._layout:
            return self._layout[name]
        rec = self.records[name]
        off, maxal, fields = 0, 1, {}
        pack = rec.get("pack")
        for fname, ts in rec["fields"]:
            ft = self.parse(ts)
            al = self.alignof(ft)
            if pack:
                al = min(al, pack)
            off = (off + al - 1) // al * al
            fields[fname] = (off, ft)
            off += self.sizeof(ft)
            maxal = max(maxal, al)
        size = (off + maxal - 1) // maxal * maxal
        if not rec["fields"]:
            size = 0          # GNU C: empty struct has size 0
        self._layout[name] = (size, maxal, fields)
        return self._layout[name]

    def field(self, sname: str, fname: str) -> Tuple[int, CType]:
        return self.layout(sname)[2][fname]
