"""Side-car contracts for the processor classes of /repo/lib/py/bitprotolib/bp.py
(structural level: cursor, access window, call order, index stack; integer model z3 Int).

Abstract `Processor.process(ctx, di, acc)` contract (B.3 of DESIGN.md), used for every dynamic call:
  requires  ctx.i >= 0  /\\  ctx.i + w <= 8*len(ctx.s)          (w = bits this processor occupies / consumes)
  ensures   ctx.i' = ctx.i + w ; only stream bits [ctx.i, ctx.i + w) are accessed ; len(ctx.s) unchanged ;
            di.aistack has its entry value again ; no exception
Every concrete processor class is proved to satisfy this same contract (structural induction over
processor trees).  Content below the leaves is the bit-vector contract of process_base_type (py_bp.py);
here leaves are represented by the integer-model transcription of that contract (stub_pbt).
"""
from __future__ import annotations

import z3

from ..pysym import engine as EN
from .common import pyproof, S, T, SymInt, SymBool, wrap, lift, LoopSpec
from .py_bp import BP, MOD, _lemma

I = z3.IntSort()


class AbsBuf:
    """Abstract byte buffer: length L (Int) and ghost access window [lo, hi) in stream bits."""

    def __init__(self, E, i0):
        self.L = E.fresh("L", "int")
        self.lo = i0
        self.hi = i0
        E.assume(self.L >= 0)

    def touch(self, a, b):
        self.lo = z3.If(a < self.lo, a, self.lo)
        self.hi = z3.If(b > self.hi, b, self.hi)

    def sym_len(self):
        return wrap(self.L)

    def __getitem__(self, i):
        raise EN.Unsupported("abstract buffer accessed directly")

    __setitem__ = __getitem__


def mk(E, bp, is_encode):
    i0 = E.fresh("i0", "int")
    E.assume(i0 >= 0)
    buf = AbsBuf(E, i0)
    ctx = bp.ProcessContext(is_encode, buf, SymInt(i0))
    return ctx, buf, i0


def stub_pbt(trace):
    """Integer-model transcription of the contract proved for process_base_type in py_bp.py:
    requires 1 <= n <= 64, ctx.i >= 0, ctx.i + n <= 8L ; accesses only bits [ctx.i, ctx.i+n) ; ctx.i += n."""
    def f(nbits, ctx, di, accessor):
        E = EN.cur()
        n, i = T(nbits, z3.IntVal(0)), T(ctx.i, z3.IntVal(0))
        E.oblige("pre-of-callee:process_base_type", z3.And(n >= 1, n <= 64, i >= 0, i + n <= 8 * ctx.s.L),
                 kind="pre-of-callee")
        ctx.s.touch(i, i + n)
        trace.append(("pbt", n, i, di, accessor))
        ctx.i = wrap(i + n)
    return f


class AbsProc:
    """Abstract processor obeying the abstract process contract with width term w."""

    def __init__(self, bp, w, trace, tag=None):
        self.w, self.trace, self.tag = w, trace, tag

    def process(self, ctx, di, accessor):
        E = EN.cur()
        i = T(ctx.i, z3.IntVal(0))
        E.oblige("pre-of-callee:process(room)", z3.And(i >= 0, i + self.w <= 8 * ctx.s.L), kind="pre-of-callee")
        ctx.s.touch(i, i + self.w)
        self.trace.append(("proc", self.tag, i, di, list(di.aistack) if hasattr(di, "aistack") else None, accessor))
        ctx.i = wrap(i + self.w)


def post_abstract(E, ctx, buf, i0, w, di=None, stack0=None):
    """postcondition of the abstract process contract"""
    E.oblige("post:cursor", T(ctx.i, z3.IntVal(0)) == i0 + w)
    E.oblige("post:frame", z3.And(buf.lo >= i0, buf.hi <= i0 + w), kind="frame")
    if di is not None:
        E.oblige("post:index-stack", _same_stack(di.aistack, stack0))


def _same_stack(a, b):
    if len(a) != len(b):
        return z3.BoolVal(False)
    return z3.And(*[T(x, z3.IntVal(0)) == T(y, z3.IntVal(0)) for x, y in zip(a, b)]) if a else z3.BoolVal(True)


# --------------------------------------------------------------------------- leaf processors
def _leaf(cls, width_of, has_nbits, signed=False):
    for enc in (True, False):
        mode = "encode" if enc else "decode"

        @pyproof("py:bp.%s.process/%s" % (cls, mode), BP, "%s.process" % cls, ["C01", "C02", "C07", "C14"], MOD,
                 must=["post:cursor", "post:calls"], calls=["process_base_type", "Accessor.bp_process_int"])
        def _p(E, bp, vc, enc=enc):
            trace = []
            bp.process_base_type = stub_pbt(trace)
            ctx, buf, i0 = mk(E, bp, enc)
            if has_nbits:
                n = E.fresh("nbits", "int")
                E.assume(z3.And(n >= 1, n <= 64))
                p = getattr(bp, cls)(SymInt(n))
            else:
                n = z3.IntVal(width_of)
                p = getattr(bp, cls)()
            E.assume(i0 + n <= 8 * buf.L)
            E.cover("requires")
            di = bp.DataIndexer(3, [5])
            ints = []

            class Acc:
                def bp_process_int(self, d):
                    ints.append((d, len(trace)))
            acc = Acc()
            p.process(ctx, di, acc)
            post_abstract(E, ctx, buf, i0, n, di, [5])
            ok = len(trace) == 1 and trace[0][3] is di and trace[0][4] is acc
            E.oblige("post:calls", z3.And(z3.BoolVal(ok), trace[0][1] == n, trace[0][2] == i0) if trace else False)
            if signed and not enc:
                # sign handling runs exactly once, after the bits were copied, for this indexer
                E.oblige("post:process-int", len(ints) == 1 and ints[0][0] is di and ints[0][1] == 1)
            else:
                E.oblige("post:process-int", len(ints) == 0)


_leaf("Bool", 1, False)
_leaf("Byte", 8, False)
_leaf("Uint", None, True)
_leaf("Int", None, True, signed=True)


# --------------------------------------------------------------------------- pass-through processors
def _passthrough(cls, attr, mk_obj):
    for enc in (True, False):
        mode = "encode" if enc else "decode"

        @pyproof("py:bp.%s.process/%s" % (cls, mode), BP, "%s.process" % cls, ["C01", "C02", "C07", "C12"], MOD,
                 must=["post:cursor", "post:forward"], calls=["Processor.process"])
        def _p(E, bp, vc, enc=enc):
            trace = []
            ctx, buf, i0 = mk(E, bp, enc)
            w = E.fresh("w", "int")
            E.assume(z3.And(w >= 0, i0 + w <= 8 * buf.L))
            E.cover("requires")
            inner = AbsProc(bp, w, trace)
            p = mk_obj(bp, inner)
            di = bp.DataIndexer(3, [5])
            acc = object()
            p.process(ctx, di, acc)
            post_abstract(E, ctx, buf, i0, w, di, [5])
            ok = len(trace) == 1 and trace[0][3] is di and trace[0][5] is acc
            E.oblige("post:forward", z3.And(z3.BoolVal(ok), trace[0][2] == i0) if trace else False)


_passthrough("AliasProcessor", "to", lambda bp, inner: bp.AliasProcessor(inner))
_passthrough("EnumProcessor", "ut", lambda bp, inner: bp.EnumProcessor(inner))


for _enc in (True, False):
    @pyproof("py:bp.MessageFieldProcessor.process/%s" % ("encode" if _enc else "decode"), BP,
             "MessageFieldProcessor.process", ["C01", "C02", "C07", "C12"], MOD,
             must=["post:cursor", "post:forward"], calls=["Processor.process"])
    def _mfp(E, bp, vc, enc=_enc):
        """forwards to the type processor with a fresh DataIndexer(field_number) (empty index stack), same accessor"""
        trace = []
        ctx, buf, i0 = mk(E, bp, enc)
        w = E.fresh("w", "int")
        fnum = E.fresh("fnum", "int")
        E.assume(z3.And(w >= 0, i0 + w <= 8 * buf.L, fnum >= 1, fnum <= 255))
        E.cover("requires")
        inner = AbsProc(bp, w, trace)
        p = bp.MessageFieldProcessor(SymInt(fnum), inner)
        di = bp.DataIndexer(3, [5])
        acc = object()
        p.process(ctx, di, acc)
        post_abstract(E, ctx, buf, i0, w, di, [5])
        if len(trace) == 1:
            d2 = trace[0][3]
            E.oblige("post:forward", z3.And(z3.BoolVal(trace[0][5] is acc and d2 is not di and trace[0][4] == []),
                                            T(d2.field_number, z3.IntVal(0)) == fnum, trace[0][2] == i0))
        else:
            E.oblige("post:forward", False)
        E.oblige("post:caller-indexer-untouched", T(di.field_number, z3.IntVal(0)) == 3)


# --------------------------------------------------------------------------- DataIndexer
@pyproof("py:bp.DataIndexer", BP, "DataIndexer", ["C01", "C02"], MOD, must=["post:is_valid", "post:stack"])
def _di(E, bp, vc):
    f = E.fresh("f", "int")
    d = bp.DataIndexer(SymInt(f), [7])
    v = d.is_valid()
    E.oblige("post:is_valid", lift_bool_(v) == (f > 0))
    k = E.fresh("k", "int")
    with d.index_stack_maintain():
        ok1 = d.aistack == [7, 0]
        d.index_stack_replace(SymInt(k))
        got = d.i(1)
        ok2 = len(d.aistack) == 2 and d.aistack[0] == 7
    E.oblige("post:stack", z3.And(z3.BoolVal(ok1 and ok2 and d.aistack == [7]), T(got, z3.IntVal(0)) == k))
    E.oblige("post:nil-indexer", z3.BoolVal(bp.NIL_DATA_INDEXER.field_number <= 0))
    # every indexer owns its index stack: a fresh one is empty whatever other indexers are doing (no shared default)
    a = bp.DataIndexer(1)
    a.index_stack_up()
    a.index_stack_replace(4)
    b = bp.DataIndexer(2)
    E.oblige("post:fresh-indexer-has-own-empty-stack", z3.BoolVal(list(b.aistack) == [] and b.aistack is not a.aistack
                                                                    and list(a.aistack) == [4]))


def lift_bool_(x):
    from ..pysym.proxies import lift_bool
    return lift_bool(x)


# --------------------------------------------------------------------------- Array.process
class ArrayLoop(LoopSpec):
    model = "int"

    def bind(self, ctx, buf, base, cap, w, di, trace, stack0):
        self.ctx, self.buf, self.base, self.cap, self.w, self.di, self.trace, self.stack0 = \
            ctx, buf, base, cap, w, di, trace, stack0
        self.i0 = None

    def havoc_heap(self, loc):
        E = EN.cur()
        self.ctx.i = wrap(E.fresh("ctx.i", "int"))
        self.buf.lo, self.buf.hi = E.fresh("lo", "int"), E.fresh("hi", "int")
        self.di.aistack[-1] = wrap(E.fresh("top", "int"))
        del self.trace[:]

    def inv(self, loc):
        k = T(loc["vc_i1_"], z3.IntVal(0))
        return [
            ("range", z3.And(k >= 0, k <= self.cap)),
            ("cursor", T(self.ctx.i, z3.IntVal(0)) == self.base + k * self.w),
            ("frame", z3.And(self.buf.lo >= self.i0, self.buf.hi <= self.base + k * self.w)),
            ("stack", z3.BoolVal(len(self.di.aistack) == len(self.stack0) + 1
                                 and all(a is b or a == b for a, b in zip(self.di.aistack[:-1], self.stack0)))),
        ]

    def variant(self, loc):
        return self.cap - T(loc["vc_i1_"], z3.IntVal(0))


def _array(enc, ext):
    mode = ("encode" if enc else "decode") + ("/extensible" if ext else "/fixed")

    @pyproof("py:bp.Array.process/" + mode, BP, "Array.process", ["C01", "C02", "C05", "C07", "C14"], MOD,
             cuts={("Array.process", 1): "loop1"},
             must=["post:cursor", "post:frame", "loop1/inv-preserve#cursor", "post:element-call"],
             calls=["Processor.process", "Array.encode_extensible_ahead", "Array.decode_extensible_ahead"])
    def _p(E, bp, vc):
        trace = []
        ctx, buf, i0 = mk(E, bp, enc)
        cap, w, ahead = E.fresh("cap", "int"), E.fresh("w", "int"), E.fresh("ahead", "int")
        E.assume(z3.And(cap >= 1, cap <= 65535, w >= 0, ahead >= 0, ahead <= 65535))
        pre = 16 if ext else 0
        E.assume(i0 + pre + cap * w <= 8 * buf.L)        # room for the receiver's own elements
        E.cover("requires")
        elem = AbsProc(bp, w, trace, tag="elem")
        arr = bp.Array(ext, SymInt(cap), elem)
        ahead_calls = []

        def enc_ahead(c):
            # contract of Array.encode_extensible_ahead: 16 bits at the cursor (value: capacity), cursor += 16
            i = T(c.i, z3.IntVal(0))
            E.oblige("pre-of-callee:encode_extensible_ahead", z3.And(i >= 0, i + 16 <= 8 * c.s.L), kind="pre-of-callee")
            c.s.touch(i, i + 16)
            ahead_calls.append(("enc", i))
            c.i = wrap(i + 16)

        def dec_ahead(c):
            i = T(c.i, z3.IntVal(0))
            E.oblige("pre-of-callee:decode_extensible_ahead", z3.And(i >= 0, i + 16 <= 8 * c.s.L), kind="pre-of-callee")
            c.s.touch(i, i + 16)
            ahead_calls.append(("dec", i))
            c.i = wrap(i + 16)
            return SymInt(ahead)
        arr.encode_extensible_ahead = enc_ahead
        arr.decode_extensible_ahead = dec_ahead
        di = bp.DataIndexer(3, [5])
        acc = object()
        sp = ArrayLoop()
        sp.bind(ctx, buf, i0 + pre, cap, w, di, trace, [5])
        sp.i0 = i0
        vc.specs["loop1"] = sp

        # obligations about the single element call of a loop iteration are emitted on the back edge
        orig_back = vc.loop_back

        def loop_back(lid, loc):
            k1 = T(loc["vc_i1_"], z3.IntVal(0))          # already incremented
            ok = len(trace) == 1 and trace[0][3] is di and trace[0][5] is acc and len(trace[0][4]) == 2 \
                and trace[0][4][0] == 5
            if ok:
                E.oblige("post:element-call", z3.And(T(trace[0][4][1], z3.IntVal(0)) == k1 - 1,
                                                     trace[0][2] == i0 + pre + (k1 - 1) * w))
            else:
                E.oblige("post:element-call", False)
            orig_back(lid, loc)
        vc.loop_back = loop_back
        try:
            arr.process(ctx, di, acc)
        finally:
            vc.loop_back = orig_back
        # exit path
        E.oblige("post:index-stack", z3.BoolVal(di.aistack == [5]))
        E.oblige("post:prefix-call", z3.BoolVal((len(ahead_calls) == 1 and ahead_calls[0][0] == ("enc" if enc else "dec"))
                                                if ext else not ahead_calls)
                 if not ahead_calls else z3.And(z3.BoolVal(ext and ahead_calls[0][0] == ("enc" if enc else "dec")
                                                           and len(ahead_calls) == 1), ahead_calls[0][1] == i0))
        E.oblige("post:frame", z3.And(buf.lo >= i0, buf.hi <= i0 + pre + cap * w), kind="frame")
        if enc or not ext:
            E.oblige("post:cursor", T(ctx.i, z3.IntVal(0)) == i0 + pre + cap * w)
        else:
            # C05: jump past the sender's extra elements;  own reading when the sender has fewer
            E.oblige("post:cursor", T(ctx.i, z3.IntVal(0)) == i0 + 16 + z3.If(ahead >= cap, ahead, cap) * w)
    return _p


for _enc in (True, False):
    for _ext in (True, False):
        _array(_enc, _ext)


# --------------------------------------------------------------------------- MessageProcessor.process
wf = z3.Function("wf", I, I)         # bits of field m
psum = z3.Function("psum", I, I)     # bits of fields [0, m)


class AbsFieldList:
    def __init__(self, bp, F, trace):
        self.bp, self.F, self.trace = bp, F, trace

    def sym_len(self):
        return wrap(self.F)

    # every observable behaviour of a list must be modelled or rejected (a fast path such as
    # `if not self.field_processors` must fork, not silently take the truthy branch)
    def __bool__(self):
        return EN.cur().branch(self.F > 0)

    def __len__(self):
        raise EN.Unsupported("len() of the abstract field list must go through the shadowed len")

    def __iter__(self):
        raise EN.Unsupported("iteration over the abstract field list outside the cut loop")

    def __getitem__(self, i):
        return self.sym_get(i)

    def sym_get(self, idx):
        m = T(idx, z3.IntVal(0))
        E = EN.cur()
        E.assume(z3.And(psum(m + 1) == psum(m) + wf(m), wf(m) >= 0))     # defining equation, instance m
        return AbsProc(self.bp, wf(m), self.trace, tag=m)


class MessageLoop(LoopSpec):
    model = "int"

    def bind(self, ctx, buf, i0, base, flist, trace):
        self.ctx, self.buf, self.i0, self.base, self.flist, self.trace = ctx, buf, i0, base, flist, trace

    def seq(self, it):
        return it

    def havoc_heap(self, loc):
        E = EN.cur()
        self.ctx.i = wrap(E.fresh("ctx.i", "int"))
        self.buf.lo, self.buf.hi = E.fresh("lo", "int"), E.fresh("hi", "int")
        del self.trace[:]

    def inv(self, loc):
        m = T(loc["vc_i1_"], z3.IntVal(0))
        return [
            ("range", z3.And(m >= 0, m <= self.flist.F)),
            ("cursor", T(self.ctx.i, z3.IntVal(0)) == self.base + psum(m)),
            ("frame", z3.And(self.buf.lo >= self.i0, self.buf.hi <= self.base + psum(m))),
        ]

    def variant(self, loc):
        return self.flist.F - T(loc["vc_i1_"], z3.IntVal(0))


def _message(enc, ext):
    mode = ("encode" if enc else "decode") + ("/extensible" if ext else "/fixed")

    @pyproof("py:bp.MessageProcessor.process/" + mode, BP, "MessageProcessor.process",
             ["C01", "C02", "C05", "C07", "C12"], MOD, cuts={("MessageProcessor.process", 1): "loop1"},
             must=["post:cursor", "post:frame", "loop1/inv-preserve#cursor", "post:field-call"],
             calls=["Processor.process", "MessageProcessor.encode_extensible_ahead",
                    "MessageProcessor.decode_extensible_ahead", "Accessor.bp_get_accessor"],
             assumes=["psum(m) <= psum(F) for 0 <= m <= F (induction over the defining equation; step proved as "
                      "lemma:psum-monotone)"])
    def _p(E, bp, vc):
        trace = []
        ctx, buf, i0 = mk(E, bp, enc)
        F, ahead, nbits = E.fresh("F", "int"), E.fresh("ahead", "int"), E.fresh("nbits", "int")
        pre = 16 if ext else 0
        m_ = z3.Int("m_")
        E.assume(z3.And(F >= 0, F <= 255, ahead >= 0, ahead <= 65535, psum(0) == 0))
        E.assume(z3.ForAll([m_], z3.Implies(z3.And(m_ >= 0, m_ <= F), z3.And(psum(m_) >= 0, psum(m_) <= psum(F)))),
                 heavy=True)
        E.assume(i0 + pre + psum(F) <= 8 * buf.L)
        E.cover("requires")
        flist = AbsFieldList(bp, F, trace)
        mp = bp.MessageProcessor(ext, SymInt(nbits), flist)
        ahead_calls = []

        def enc_ahead(c):
            i = T(c.i, z3.IntVal(0))
            E.oblige("pre-of-callee:encode_extensible_ahead", z3.And(i >= 0, i + 16 <= 8 * c.s.L), kind="pre-of-callee")
            c.s.touch(i, i + 16)
            ahead_calls.append(("enc", i))
            c.i = wrap(i + 16)

        def dec_ahead(c):
            i = T(c.i, z3.IntVal(0))
            E.oblige("pre-of-callee:decode_extensible_ahead", z3.And(i >= 0, i + 16 <= 8 * c.s.L), kind="pre-of-callee")
            c.s.touch(i, i + 16)
            ahead_calls.append(("dec", i))
            c.i = wrap(i + 16)
            return SymInt(ahead)
        mp.encode_extensible_ahead = enc_ahead
        mp.decode_extensible_ahead = dec_ahead
        fnum = E.fresh("di.field_number", "int")
        di = bp.DataIndexer(SymInt(fnum), [5])
        child = object()
        getacc = []

        class Acc:
            def bp_get_accessor(self, d):
                getacc.append(d)
                return child
        acc = Acc()
        sp = MessageLoop()
        sp.bind(ctx, buf, i0, i0 + pre, flist, trace)
        vc.specs["loop1"] = sp
        orig_back = vc.loop_back

        def loop_back(lid, loc):
            m1 = T(loc["vc_i1_"], z3.IntVal(0))
            ok = len(trace) == 1 and trace[0][3] is di
            if ok:
                # field m is processed exactly once, in list order, at its offset, with the (rewritten) accessor
                want_child = fnum > 0
                got_child = trace[0][5] is child
                got_self = trace[0][5] is acc
                E.oblige("post:field-call", z3.And(trace[0][1] == m1 - 1, trace[0][2] == i0 + pre + psum(m1 - 1),
                                                   z3.If(want_child, z3.BoolVal(got_child), z3.BoolVal(got_self))))
            else:
                E.oblige("post:field-call", False)
            orig_back(lid, loc)
        vc.loop_back = loop_back
        try:
            mp.process(ctx, di, acc)
        finally:
            vc.loop_back = orig_back
        E.oblige("post:accessor-rewrite", z3.If(fnum > 0, z3.BoolVal(len(getacc) == 1 and getacc[0] is di),
                                                z3.BoolVal(not getacc)))
        E.oblige("post:index-stack", z3.BoolVal(di.aistack == [5]))
        if ahead_calls:
            E.oblige("post:prefix-call", z3.And(z3.BoolVal(ext and len(ahead_calls) == 1
                                                           and ahead_calls[0][0] == ("enc" if enc else "dec")),
                                                ahead_calls[0][1] == i0))
        else:
            E.oblige("post:prefix-call", z3.BoolVal(not ext))
        own = pre + psum(F)
        E.oblige("post:frame", z3.And(buf.lo >= i0, buf.hi <= i0 + own), kind="frame")
        if enc or not ext:
            E.oblige("post:cursor", T(ctx.i, z3.IntVal(0)) == i0 + own)
        else:
            # C05: a longer sender message is skipped to its end; never move backwards
            E.oblige("post:cursor", T(ctx.i, z3.IntVal(0)) == i0 + z3.If(ahead >= own, ahead, own))
    return _p


for _enc in (True, False):
    for _ext in (True, False):
        _message(_enc, _ext)


@_lemma("lemma:psum-monotone", ["C01", "C05", "C07"],
        "induction step of  psum(m) <= psum(F)  (0<=m<=F) from psum(m+1)=psum(m)+wf(m), wf>=0; the induction schema is trusted")
def _psum(E):
    m, F = z3.Ints("m F")
    ax = z3.And(psum(m + 1) == psum(m) + wf(m), wf(m) >= 0)
    E.assume(ax)
    E.oblige("step", z3.Implies(z3.And(0 <= m, m < F, psum(m + 1) <= psum(F)), psum(m) <= psum(F)), kind="lemma")
    E.oblige("base", psum(F) <= psum(F), kind="lemma")
    E.oblige("nonneg-step", z3.Implies(z3.And(psum(m) >= 0), psum(m + 1) >= 0), kind="lemma")
