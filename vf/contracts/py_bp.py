"""Side-car contracts for /repo/lib/py/bitprotolib/bp.py  (leaf level, bit-vector model).

Every function named here is read from the working tree and executed by CPython
on solver-backed integers.  Callees listed in `calls` are replaced by stubs that
(1) emit the callee's precondition as an obligation and (2) return / perform
exactly what the callee's postcondition states.
"""
from __future__ import annotations

import z3

from ..pysym import engine as EN
from ..spec.bits import W, bv, sbit, vbit, pow2, low, sx, min3
from .common import (pyproof, S, T, SymInt, SymBool, SymBytes, wrap, lift, LoopSpec)

BP = "lib/py/bitprotolib/bp.py"
MOD = "bitprotolib.bp"
MAXLEN = 1 << 48          # buffers shorter than 2^48 bytes: every cursor stays < 2^53 (int(i / 8) exact)


# --------------------------------------------------------------------------- contracts (pre, post)
class C_get_mask:
    """0<=k<=7, 0<=c, k+c<=8  ==>  result = 2^(k+c) - 2^k"""
    pre = staticmethod(lambda k, c: z3.And(k >= 0, k <= 7, c >= 0, c <= 8, k + c <= 8))
    fn = staticmethod(lambda k, c: pow2(k + c) - pow2(k))


class C_smart_shift:
    """0<=n<=255, -7<=k<=7  ==>  n>>k | n<<-k | n"""
    pre = staticmethod(lambda n, k: z3.And(n >= 0, n <= 255, k >= -7, k <= 7))
    fn = staticmethod(lambda n, k: z3.If(k > 0, n >> k, z3.If(k < 0, n << (0 - k), n)))


class C_get_nbits_to_copy:
    """i>=0, 0<=j<n  ==>  result = min(n-j, 8-j%8, 8-i%8)  (hence >= 1)"""
    pre = staticmethod(lambda i, j, n: z3.And(i >= 0, j >= 0, j < n, n <= 64, i < (1 << 53)))
    fn = staticmethod(lambda i, j, n: min3(n - j, 8 - z3.URem(j, bv(8)), 8 - z3.URem(i, bv(8))))


def stub_fn(name, C):
    def f(*args):
        E = EN.cur()
        ts = [T(a) for a in args]
        E.oblige("pre-of-callee:" + name, C.pre(*ts), kind="pre-of-callee")
        return wrap(C.fn(*ts))
    f.__name__ = "stub_" + name
    return f


def single_byte_pre(i, j, c, L):
    """common precondition of encode_single_byte / decode_single_byte"""
    return z3.And(i >= 0, i < (1 << 53), z3.UDiv(i, bv(8)) < L, j >= 0, j <= 63, c >= 1, c <= 8,
                  z3.URem(j, bv(8)) + c <= 8, z3.URem(i, bv(8)) + c <= 8)


def esb_effect(buf, i, j, c, v):
    """buffer after encode_single_byte: byte i div 8 is OR-ed with ((v >> j) & (2^c - 1)) << (i mod 8)"""
    idx = z3.UDiv(i, bv(8))
    d = ((v >> j) & (pow2(c) - 1)) << z3.URem(i, bv(8))
    return z3.Store(buf, idx, buf[idx] | z3.Extract(7, 0, d))


def dsb_byte(buf, i, j, c):
    """byte handed to bp_set_byte by decode_single_byte: stream bits [i, i+c) placed at bit j mod 8"""
    b = z3.ZeroExt(W - 8, buf[z3.UDiv(i, bv(8))])
    return ((b >> z3.URem(i, bv(8))) & (pow2(c) - 1)) << z3.URem(j, bv(8))


class GetAccessor:
    """Abstract Accessor for encoding:  bp_get_byte(di, r) = (v >> r) & 255   for r in {0, 8, ..., 56};
    v is ANY integer of the 128-bit model (out-of-range and negative values included: C07)."""

    def __init__(self, bp, di, v):
        self.di, self.v, self.calls = di, v, 0

    def bp_get_byte(self, di, rshift):
        E = EN.cur()
        r = T(rshift)
        E.oblige("pre-of-callee:bp_get_byte", z3.And(z3.BoolVal(di is self.di), r >= 0, r <= 56, z3.URem(r, bv(8)) == 0),
                 kind="pre-of-callee")
        self.calls += 1
        return wrap((self.v >> r) & 255)

    def bp_set_byte(self, di, lshift, b):
        EN.cur().oblige("frame:encode never calls bp_set_byte", False, kind="frame")

    def bp_process_int(self, di):
        EN.cur().oblige("frame:encode never calls bp_process_int", False, kind="frame")


class SetAccessor:
    """Abstract Accessor for decoding.  kind: 'uint' (val |= b << l), 'intN' (val |= intN(b << l), N = storage
    width of the generated caster), 'bool' (val = (b != 0)).  Contract of bp_set_byte:
      requires 0 <= b <= 255, l in {0,8,...,56}, and for intN  b << l < 2^N   (precondition of bp.intN)."""

    def __init__(self, di, val, N=None, kind="uint"):
        self.di, self.val, self.N, self.kind = di, val, N, kind
        self.calls = []
        self.process_int_calls = 0

    def bp_set_byte(self, di, lshift, b):
        E = EN.cur()
        l, bt = T(lshift), T(b)
        pre = [z3.BoolVal(di is self.di), bt >= 0, bt <= 255, l >= 0, l <= 56, z3.URem(l, bv(8)) == 0]
        x = bt << l
        if self.kind == "intN":
            pre.append(x < pow2(bv(self.N)))
        E.oblige("pre-of-callee:bp_set_byte", z3.And(*pre), kind="pre-of-callee")
        self.calls.append((l, bt))
        if self.kind == "uint":
            self.val = self.val | x
        elif self.kind == "intN":
            self.val = self.val | z3.If(x < pow2(bv(self.N - 1)), x, x - pow2(bv(self.N)))
        else:
            self.val = z3.If(bt != 0, bv(1), bv(0))

    def bp_get_byte(self, di, rshift):
        EN.cur().oblige("frame:decode never calls bp_get_byte", False, kind="frame")
        return 0

    def bp_process_int(self, di):
        self.process_int_calls += 1


def mk_ctx(E, bp, is_encode, name="s"):
    s = SymBytes(name)
    i = S(E, "i")
    E.assume(z3.And(s.n >= 0, s.n < MAXLEN))
    ctx = bp.ProcessContext(is_encode, s, i)
    return ctx, s, i


# --------------------------------------------------------------------------- pure helpers
@pyproof("py:bp.get_mask", BP, "get_mask", ["C01", "C02", "C07", "C14"], MOD, must=["post:result"])
def _get_mask(E, bp, vc):
    k, c = S(E, "k"), S(E, "c")
    E.assume(C_get_mask.pre(k.t, c.t))
    E.cover("requires")
    r = bp.get_mask(k, c)
    E.oblige("post:result", T(r) == C_get_mask.fn(k.t, c.t))


@pyproof("py:bp.smart_shift", BP, "smart_shift", ["C01", "C02", "C07", "C14"], MOD, must=["post:result"])
def _smart_shift(E, bp, vc):
    n, k = S(E, "n"), S(E, "k")
    E.assume(C_smart_shift.pre(n.t, k.t))
    E.cover("requires")
    r = bp.smart_shift(n, k)
    E.oblige("post:result", T(r) == C_smart_shift.fn(n.t, k.t))


@pyproof("py:bp.get_nbits_to_copy", BP, "get_nbits_to_copy", ["C01", "C02", "C07", "C14"], MOD,
         must=["post:result", "post:positive"])
def _get_nbits(E, bp, vc):
    i, j, n = S(E, "i"), S(E, "j"), S(E, "n")
    E.assume(C_get_nbits_to_copy.pre(i.t, j.t, n.t))
    E.cover("requires")
    r = bp.get_nbits_to_copy(i, j, n)
    E.oblige("post:result", T(r) == C_get_nbits_to_copy.fn(i.t, j.t, n.t))
    E.oblige("post:positive", T(r) >= 1)


def _intN(N):
    @pyproof("py:bp.int%d" % N, BP, "int%d" % N, ["C02", "C14"], MOD, must=["post:result"])
    def _p(E, bp, vc):
        i = S(E, "i")
        E.assume(z3.And(i.t >= 0, i.t < pow2(bv(N))))
        E.cover("requires")
        r = getattr(bp, "int%d" % N)(i)
        E.oblige("post:result", T(r) == sx(i.t, bv(N)))
    return _p


for _N in (8, 16, 32, 64):
    _intN(_N)


# --------------------------------------------------------------------------- single byte
@pyproof("py:bp.encode_single_byte", BP, "encode_single_byte", ["C01", "C07", "C14"], MOD,
         must=["post:buffer", "post:cursor"], calls=["get_mask", "smart_shift", "Accessor.bp_get_byte"])
def _esb(E, bp, vc):
    bp.get_mask = stub_fn("get_mask", C_get_mask)
    bp.smart_shift = stub_fn("smart_shift", C_smart_shift)
    ctx, s, i = mk_ctx(E, bp, True)
    j, c = S(E, "j"), S(E, "c")
    v = E.fresh("v")
    E.assume(single_byte_pre(i.t, j.t, c.t, s.n))
    E.cover("requires")
    S0 = s.a
    di = bp.DataIndexer(1)
    acc = GetAccessor(bp, di, v)
    bp.encode_single_byte(ctx, di, acc, j, c)
    q = z3.BitVec("q", W)
    E.oblige("post:buffer", s.a[q] == esb_effect(S0, i.t, j.t, c.t, v)[q])
    E.oblige("post:cursor", T(ctx.i) == i.t)
    E.oblige("post:one-get", acc.calls == 1)


@pyproof("py:bp.decode_single_byte", BP, "decode_single_byte", ["C02", "C07", "C14"], MOD,
         must=["post:set-byte", "post:buffer"], calls=["get_mask", "smart_shift", "Accessor.bp_set_byte"])
def _dsb(E, bp, vc):
    bp.get_mask = stub_fn("get_mask", C_get_mask)
    bp.smart_shift = stub_fn("smart_shift", C_smart_shift)
    ctx, s, i = mk_ctx(E, bp, False)
    j, c = S(E, "j"), S(E, "c")
    E.assume(single_byte_pre(i.t, j.t, c.t, s.n))
    E.cover("requires")
    di = bp.DataIndexer(1)
    acc = SetAccessor(di, bv(0), kind="uint")
    bp.decode_single_byte(ctx, di, acc, j, c)
    E.oblige("post:one-set", len(acc.calls) == 1)
    if len(acc.calls) == 1:
        l, b = acc.calls[0]
        E.oblige("post:set-byte", z3.And(l == z3.UDiv(j.t, bv(8)) * 8, b == dsb_byte(s.a, i.t, j.t, c.t)))
    E.oblige("post:buffer", s.writes == 0)
    E.oblige("post:cursor", T(ctx.i) == i.t)


@pyproof("py:bp.process_single_byte", BP, "process_single_byte", ["C01", "C02", "C14"], MOD,
         must=["post:dispatch"], calls=["encode_single_byte", "decode_single_byte"])
def _psb(E, bp, vc):
    rec = []
    bp.encode_single_byte = lambda *a: rec.append(("enc",) + a)
    bp.decode_single_byte = lambda *a: rec.append(("dec",) + a)
    enc = SymBool(E.fresh("is_encode", "bool"))
    ctx = bp.ProcessContext(enc, None, 0)
    di, acc, j, c = object(), object(), S(E, "j"), S(E, "c")
    bp.process_single_byte(ctx, di, acc, j, c)
    ok = len(rec) == 1 and rec[0][1] is ctx and rec[0][2] is di and rec[0][3] is acc and rec[0][4] is j and rec[0][5] is c
    E.oblige("post:dispatch", z3.And(z3.BoolVal(ok), enc.t == z3.BoolVal(rec[0][0] == "enc")) if rec else False)


# --------------------------------------------------------------------------- process_base_type (loop)
def stub_psb_encode(acc_v):
    """contract stub of process_single_byte when encoding (= contract of encode_single_byte)"""
    def f(ctx, di, acc, j, c):
        E = EN.cur()
        s = ctx.s
        E.oblige("pre-of-callee:process_single_byte", single_byte_pre(T(ctx.i), T(j), T(c), s.n), kind="pre-of-callee")
        s.a = esb_effect(s.a, T(ctx.i), T(j), T(c), acc_v)
    return f


def stub_psb_decode():
    """contract stub of process_single_byte when decoding (= contract of decode_single_byte)"""
    def f(ctx, di, acc, j, c):
        E = EN.cur()
        s = ctx.s
        E.oblige("pre-of-callee:process_single_byte", single_byte_pre(T(ctx.i), T(j), T(c), s.n), kind="pre-of-callee")
        acc.bp_set_byte(di, wrap(z3.UDiv(T(j), bv(8)) * 8), wrap(dsb_byte(s.a, T(ctx.i), T(j), T(c))))
    return f


class PBTEncodeLoop(LoopSpec):
    """B.1: 0<=j<=n, ctx.i = i0+j, bits [i0,i0+j) = old | value bits, every other bit unchanged"""

    def bind(self, ctx, s, S0, i0, n, v):
        self.ctx, self.s, self.S0, self.i0, self.n, self.v = ctx, s, S0, i0, n, v

    def havoc_heap(self, loc):
        E = EN.cur()
        self.ctx.i = wrap(E.fresh("ctx.i"))
        self.s.a = E.fresh("s", z3.ArraySort(z3.BitVecSort(W), z3.BitVecSort(8)))

    def inv(self, loc):
        j = T(loc["j"])
        k = z3.BitVec("k", W)
        i0, S0, s, v = self.i0, self.S0, self.s.a, self.v
        return [
            ("range", z3.And(j >= 0, j <= self.n)),
            ("cursor", T(self.ctx.i) == i0 + j),
            ("content", z3.ForAll([k], z3.Implies(z3.And(k >= 0, k < j),
                                                  sbit(s, i0 + k) == (sbit(S0, i0 + k) | vbit(v, k))))),
            ("frame", z3.ForAll([k], z3.Implies(z3.And(k >= 0, k < 8 * self.s.n, z3.Or(k < i0, k >= i0 + j)),
                                                sbit(s, k) == sbit(S0, k)))),
        ]

    def variant(self, loc):
        return self.n - T(loc["j"])


def pbt_pre(n, i0, L):
    return z3.And(n >= 1, n <= 64, i0 >= 0, i0 < (1 << 52), L >= 0, L < MAXLEN, i0 + n <= 8 * L)


@pyproof("py:bp.process_base_type/encode", BP, "process_base_type", ["C01", "C07", "C14"], MOD,
         cuts={("process_base_type", 1): "loop1"},
         must=["loop1/inv-preserve#content", "loop1/inv-preserve#frame", "post:content", "post:frame", "post:cursor"],
         calls=["get_nbits_to_copy", "process_single_byte"])
def _pbt_enc(E, bp, vc):
    ctx, s, i = mk_ctx(E, bp, True)
    n = S(E, "n")
    v = E.fresh("v")           # any integer: no range assumption (C07 field containment)
    E.assume(pbt_pre(n.t, i.t, s.n))
    E.cover("requires")
    S0 = s.a
    sp = PBTEncodeLoop()
    sp.bind(ctx, s, S0, i.t, n.t, v)
    vc.specs["loop1"] = sp
    bp.get_nbits_to_copy = stub_fn("get_nbits_to_copy", C_get_nbits_to_copy)
    bp.process_single_byte = stub_psb_encode(v)
    di = bp.DataIndexer(1)
    bp.process_base_type(n, ctx, di, GetAccessor(bp, di, v))
    k = z3.BitVec("k", W)
    E.oblige("post:cursor", T(ctx.i) == i.t + n.t)
    E.oblige("post:content", z3.Implies(z3.And(k >= 0, k < n.t),
                                        sbit(s.a, i.t + k) == (sbit(S0, i.t + k) | vbit(v, k))))
    E.oblige("post:frame", z3.Implies(z3.And(k >= 0, k < 8 * s.n, z3.Or(k < i.t, k >= i.t + n.t)),
                                      sbit(s.a, k) == sbit(S0, k)), kind="frame")


class PBTDecodeLoop(LoopSpec):
    """B.2: ctx.i = i0+j, buffer untouched, bits [0,j) of val = stream bits, bits >= j zero / val in range of sx"""

    def bind(self, ctx, s, S0, i0, n, acc, N):
        self.ctx, self.s, self.S0, self.i0, self.n, self.acc, self.N = ctx, s, S0, i0, n, acc, N

    def havoc_heap(self, loc):
        E = EN.cur()
        self.ctx.i = wrap(E.fresh("ctx.i"))
        self.acc.val = E.fresh("val")

    def inv(self, loc):
        j = T(loc["j"])
        k = z3.BitVec("k", W)
        val, N = self.acc.val, self.N
        top = N if N else W - 1
        ps = [
            ("range", z3.And(j >= 0, j <= self.n)),
            ("cursor", T(self.ctx.i) == self.i0 + j),
            ("buffer", z3.BoolVal(self.s.writes == 0)),
            ("content", z3.ForAll([k], z3.Implies(z3.And(k >= 0, k < j), vbit(val, k) == sbit(self.S0, self.i0 + k)))),
            ("zero-above", z3.ForAll([k], z3.Implies(z3.And(k >= j, k < top), vbit(val, k) == 0))),
        ]
        if N:
            ps.append(("in-range", val == sx(val, bv(N))))
        else:
            ps.append(("in-range", val >= 0))
        return ps

    def variant(self, loc):
        return self.n - T(loc["j"])


def _pbt_dec(N):
    tag = ("int%d" % N) if N else "uint"

    @pyproof("py:bp.process_base_type/decode/" + tag, BP, "process_base_type", ["C02", "C07", "C14"], MOD,
             cuts={("process_base_type", 1): "loop1"},
             must=["loop1/inv-preserve#content", "loop1/inv-preserve#zero-above", "post:content", "post:cursor"],
             calls=["get_nbits_to_copy", "process_single_byte", "Accessor.bp_set_byte"])
    def _p(E, bp, vc):
        ctx, s, i = mk_ctx(E, bp, False)
        n = S(E, "n")
        E.assume(pbt_pre(n.t, i.t, s.n))
        if N:
            E.assume(n.t <= N)
        E.cover("requires")
        di = bp.DataIndexer(1)
        acc = SetAccessor(di, bv(0), N=N or None, kind="intN" if N else "uint")   # fresh target: value 0
        sp = PBTDecodeLoop()
        sp.bind(ctx, s, s.a, i.t, n.t, acc, N)
        vc.specs["loop1"] = sp
        bp.get_nbits_to_copy = stub_fn("get_nbits_to_copy", C_get_nbits_to_copy)
        bp.process_single_byte = stub_psb_decode()
        bp.process_base_type(n, ctx, di, acc)
        k = z3.BitVec("k", W)
        val = acc.val
        E.oblige("post:cursor", T(ctx.i) == i.t + n.t)
        E.oblige("post:buffer", s.writes == 0, kind="frame")
        E.oblige("post:content", z3.Implies(z3.And(k >= 0, k < n.t), vbit(val, k) == sbit(s.a, i.t + k)))
        E.oblige("post:zero-above", z3.Implies(z3.And(k >= n.t, k < (N if N else W - 1)), vbit(val, k) == 0))
        if N:
            # round-trip corollary for a full-width field: val is the sign-extended N-bit pattern
            E.oblige("post:in-range", val == sx(val, bv(N)))
        else:
            E.oblige("post:in-range", z3.And(val >= 0, z3.Implies(n.t < W - 1, val < pow2(n.t))))
    return _p


for _N in (0, 8, 16, 32, 64):
    _pbt_dec(_N)


# --------------------------------------------------------------------------- lemmas (round trip, C02)
def _lemma(pid, props, doc):
    def deco(body):
        from ..core.registry import ProofDef, ProofResult, register

        def run():
            E = EN.Engine(pid, "lemma", "vf/contracts/py_bp.py", props)
            E.explore(lambda: body(E))
            return ProofResult(pid=pid, obls=E.obls, paths=E.completed_paths)
        register(ProofDef(pid=pid, func="(lemma)", file="", props=props, run=run, doc=doc))
        return body
    return deco


@_lemma("lemma:sx-low-roundtrip", ["C02", "C14"], "sx(low(v,n),n) = v for -2^(n-1) <= v < 2^(n-1); low(v,n)=v for 0<=v<2^n")
def _l1(E):
    v, n = E.fresh("v"), E.fresh("n")
    E.assume(z3.And(n >= 1, n <= 64))
    E.oblige("signed", z3.Implies(z3.And(v >= -pow2(n - 1), v < pow2(n - 1)), sx(low(v, n), n) == v), kind="lemma")
    E.oblige("unsigned", z3.Implies(z3.And(v >= 0, v < pow2(n)), low(v, n) == v), kind="lemma")
    # the generated sign handling:  if (x >> (n-1)) & 1: x |= -2^n     on a value with bits >= n clear
    x = E.fresh("x")
    E.oblige("process-int", z3.Implies(z3.And(x >= 0, x < pow2(n)),
                                       z3.If(vbit(x, n - 1) == 1, x | (-pow2(n)), x) == sx(x, n)), kind="lemma")


# --------------------------------------------------------------------------- IntAccessor and the 16-bit prefixes
@pyproof("py:bp.IntAccessor", BP, "IntAccessor", ["C01", "C02", "C05"], MOD, must=["post:get", "post:set"])
def _intacc(E, bp, vc):
    """IntAccessor satisfies the abstract accessor contracts used by process_base_type (GetAccessor / SetAccessor 'uint')
    for an indexer with field_number == 1"""
    data, r, l, b = E.fresh("data"), E.fresh("r"), E.fresh("l"), E.fresh("b")
    E.assume(z3.And(r >= 0, r <= 56, z3.URem(r, bv(8)) == 0, l >= 0, l <= 56, z3.URem(l, bv(8)) == 0, b >= 0, b <= 255,
                    data >= 0, data < pow2(bv(64))))
    a = bp.IntAccessor(data=SymInt(data))
    di = bp.DataIndexer(field_number=1)
    got = a.bp_get_byte(di, SymInt(r))
    E.oblige("post:get", T(got) == ((data >> r) & 255))
    a.bp_set_byte(di, SymInt(l), SymInt(b))
    E.oblige("post:set", T(a.data) == (data | (b << l)))
    E.oblige("post:default", bp.IntAccessor().data == 0)


def _ahead(cls, attr, ctor):
    @pyproof("py:bp.%s.encode_extensible_ahead" % cls, BP, "%s.encode_extensible_ahead" % cls,
             ["C01", "C05"], MOD, must=["post:call"], calls=["process_base_type"])
    def _enc(E, bp, vc):
        """= process_base_type(16, ctx, DataIndexer(1), IntAccessor(<capacity | nbits>)): by that contract the 16 stream
        bits at the cursor become low(value, 16), LSB first"""
        rec = []
        bp.process_base_type = lambda *a: rec.append(a)
        val = E.fresh(attr)
        E.assume(z3.And(val >= 0, val <= 65535))
        obj = ctor(bp, SymInt(val))
        ctx = bp.ProcessContext(True, None, S(E, "i"))
        getattr(obj, "encode_extensible_ahead")(ctx)
        if len(rec) == 1 and rec[0][1] is ctx and isinstance(rec[0][3], bp.IntAccessor):
            n, _, di, acc = rec[0]
            E.oblige("post:call", z3.And(T(n) == 16, T(di.field_number) == 1, z3.BoolVal(di.aistack == []),
                                         T(acc.data) == val))
        else:
            E.oblige("post:call", False)

    @pyproof("py:bp.%s.decode_extensible_ahead" % cls, BP, "%s.decode_extensible_ahead" % cls,
             ["C02", "C05"], MOD, must=["post:result"], calls=["process_base_type"])
    def _dec(E, bp, vc):
        """returns the value process_base_type(16, ...) decodes into a fresh IntAccessor (data 0, field_number 1)"""
        out = E.fresh("decoded")

        def pbt(n, c, di, acc):
            E.oblige("pre-of-callee:process_base_type", z3.And(T(n) == 16, T(di.field_number) == 1,
                                                               z3.BoolVal(isinstance(acc, bp.IntAccessor)),
                                                               T(acc.data) == 0), kind="pre-of-callee")
            acc.data = SymInt(out)
            c.i = c.i + 16
        bp.process_base_type = pbt
        obj = ctor(bp, 7)
        i = S(E, "i")
        E.assume(z3.And(i.t >= 0, i.t < (1 << 52)))
        ctx = bp.ProcessContext(False, None, i)
        r = getattr(obj, "decode_extensible_ahead")(ctx)
        E.oblige("post:result", T(r) == out)
        E.oblige("post:cursor", T(ctx.i) == i.t + 16)


    @pyproof("py:bp.%s.decode_extensible_ahead/after-encode" % cls, BP, "%s.decode_extensible_ahead" % cls,
             ["C02", "C05"], MOD, must=["post:result"], calls=["process_base_type"])
    def _dec_after_enc(E, bp, vc):
        """two-call history in one loaded module: a prefix was ENCODED (any 16-bit value, by either processor class) before this
        decode - the accessor handed to process_base_type is still zero and the result is still exactly what the copy decodes (no
        scratch state shared between calls)"""
        out = E.fresh("decoded")
        earlier = E.fresh("earlier")
        E.assume(z3.And(earlier >= 0, earlier <= 65535))
        bp.process_base_type = lambda *a: None
        for other in (bp.Array(True, SymInt(earlier), None), bp.MessageProcessor(True, SymInt(earlier), [])):
            other.encode_extensible_ahead(bp.ProcessContext(True, None, S(E, "i0")))

        def pbt(n, c, di, acc):
            E.oblige("pre-of-callee:process_base_type", z3.And(T(n) == 16, T(di.field_number) == 1, z3.BoolVal(di.aistack == []),
                                                               z3.BoolVal(isinstance(acc, bp.IntAccessor)),
                                                               T(acc.data) == 0), kind="pre-of-callee")
            acc.data = acc.data | SymInt(out)          # the copy ORs the stream bits into the accessor
            c.i = c.i + 16
        bp.process_base_type = pbt
        E.assume(z3.And(out >= 0, out <= 65535))
        obj = ctor(bp, 7)
        i = S(E, "i")
        E.assume(z3.And(i.t >= 0, i.t < (1 << 52)))
        ctx = bp.ProcessContext(False, None, i)
        r = getattr(obj, "decode_extensible_ahead")(ctx)
        E.oblige("post:result", T(r) == out)
        # and a second decode right after it starts from zero again
        r2 = getattr(obj, "decode_extensible_ahead")(ctx)
        E.oblige("post:second-decode", T(r2) == out)


_ahead("Array", "capacity", lambda bp, v: bp.Array(True, v, None))
_ahead("MessageProcessor", "nbits", lambda bp, v: bp.MessageProcessor(True, v, []))


@_lemma("lemma:layout-invariant-under-rewrites", ["C12"],
        "for every listed rewrite the reference layout of the rewritten schema, on the value mapped through the rewrite, is bit for "
        "bit the layout of the base schema (the reference layout mentions only number order and resolved types)")
def _rewrites(E):
    from ..spec import layout as L
    from ..templates import family
    vs = family.rewrite_variants()
    _, s0, t0, _ = vs[0]
    leaves = []
    v = L.fresh_value(t0, "v", leaves)
    base = L.enc(t0, v)
    for name, s, t, vmap in vs[1:]:
        bits = L.enc(t, vmap(v))
        E.oblige("same-length[%s]" % name, len(bits) == len(base), kind="lemma")
        for k, (a, b) in enumerate(zip(bits, base)):
            E.oblige("same-bit[%s][%d]" % (name, k), a == b, kind="lemma")
