"""Side-car contracts for the parser / lexer action functions (compiler/bitproto/parser.py, lexer.py).

The action methods are called on a Parser object created without PLY's table construction
(`Parser.__new__`), with a stub YaccProduction `p` whose slots have the types the grammar gives them.
PLY's LR driver (which action is called for which text, in which order) is external: assumed."""
from __future__ import annotations

import contextlib
import traceback
from typing import Callable, List

import z3

from ..core.registry import ProofDef, ProofResult, register
from ..pysym import engine as EN
from ..pysym import loader
from ..pysym.loops import LoopVC, LoopSpec
from ..pysym.proxies import SymInt, SymBool, wrap, lift, lift_bool, sym_int, sym_isinstance, sym_len, sym_max, sym_min
from .py_ast import ast_module, sym, BOUND

PARSER = "compiler/bitproto/parser.py"
LEXER = "compiler/bitproto/lexer.py"


class PStub:
    """YaccProduction stand-in: p[k], p[0] = v, len(p), p.lineno(k), p.lexpos(k), p.set_*, p.lexer.lexdata"""

    def __init__(self, slots, linenos=None, lexposs=None, lexdata=None):
        self.slots = list(slots)
        self.linenos = dict(linenos or {})
        self.lexposs = dict(lexposs or {})
        self.lexer = type("L", (), {})()
        self.lexer.lexdata = lexdata
        self.lexer.lineno = 1

    def __getitem__(self, k):
        return self.slots[k]

    def __setitem__(self, k, v):
        self.slots[k] = v

    def __len__(self):
        return len(self.slots)

    def lineno(self, k):
        return self.linenos.get(k, 100 + k)

    def lexpos(self, k):
        return self.lexposs.get(k, 1000 + k)

    def set_lineno(self, k, v):
        self.linenos[k] = v

    def set_lexpos(self, k, v):
        self.lexposs[k] = v


@contextlib.contextmanager
def parser_module(shadow=True):
    import bitproto.parser as PM
    saved = {k: PM.__dict__.get(k) for k in ("int", "isinstance", "len", "max")}
    if shadow:
        PM.int, PM.isinstance, PM.len, PM.max = sym_int, sym_isinstance, sym_len, sym_max
    try:
        with ast_module() as A:
            yield PM, A
    finally:
        for k, v in saved.items():
            if v is None:
                PM.__dict__.pop(k, None)
            else:
                PM.__dict__[k] = v


def mk_parser(PM, A, traditional=False, filepath="f.bitproto", stack=None):
    ps = PM.Parser.__new__(PM.Parser)
    proto = A.Proto(name="p", filepath=filepath)
    ps.scope_stack = list(stack) if stack is not None else [proto]
    ps.filepath_stack = [filepath]
    ps.comment_block = []
    ps.scope_stack_init_length = 0
    ps.last_newline_pos = 0
    ps.traditional_mode = traditional
    ps.lexer = None
    ps.parser = None
    return ps, proto


def pproof(pid: str, func: str, props: List[str], file: str = PARSER, must=None, calls=None, assumes=None,
           cuts=None, doc=""):
    def deco(body: Callable):
        def run(concrete=None) -> ProofResult:
            res = ProofResult(pid=pid, obls=[])
            try:
                src = loader.read_src(file)
                seg, line = loader.func_source(src, func)
                res.sha, res.line = loader.func_sha(src, func), line
                E = EN.Engine(pid, func, "%s:%d" % (file, line), props, srcfile=loader.os.path.join(loader.REPO, file))
                E.concrete = concrete
                with parser_module() as (PM, A):
                    if cuts:
                        vc = LoopVC({})
                        mod, info = loader.load(file, "bitproto.parser_cut", shadows=dict(int=sym_int, isinstance=sym_isinstance,
                                                                                          len=sym_len, max=sym_max),
                                                cuts=cuts, vc=vc, package="bitproto")
                        res.cut_loops = info
                        E.explore(lambda: body(E, mod, A, vc))
                    else:
                        E.explore(lambda: body(E, PM, A))
                res.obls, res.paths = E.obls, E.completed_paths
                missing = [m for m in (must or []) if not any(l.startswith(m) for l in E.labels_seen)]
                if missing:
                    res.error = "labels never generated (vacuous proof?): %r" % missing
                if not E.obls:
                    res.error = "no obligations generated"
            except KeyError as e:
                res.error = "target not found: %r" % (e,)
            except EN.Unsupported as e:
                res.error = "unsupported construct: %s" % (e,)
                try:
                    res.obls = E.obls       # keep what was generated before the engine gave up (refutations still count)
                except NameError:
                    pass
            except Exception as e:
                res.error = "engine exception: %r\n%s" % (e, traceback.format_exc(limit=-6))
            return res
        register(ProofDef(pid=pid, func=func, file=file, props=props, run=run, must_labels=must or [],
                          doc=doc or (body.__doc__ or ""), calls=calls or [], assumes=assumes or []))
        return body
    return deco


def no_internal_exception(E, label, thunk):
    """C09: nothing but a bitproto ParserError may leave an action function"""
    import bitproto.errors as ER
    try:
        r = thunk()
        E.oblige(label + "/no-internal-exception", True, kind="no-exception")
        return ("ok", r)
    except ER.ParserError as e:
        E.oblige(label + "/no-internal-exception", True, kind="no-exception")
        return ("parser-error", e)
    except (EN.StopPath, EN.Unsupported):
        raise
    except Exception as e:      # ZeroDivisionError, IndexError, AttributeError, ...
        E.oblige(label + "/no-internal-exception", False, kind="no-exception")
        E.notes.append("%s: %r" % (label, e))
        return ("internal", e)


# ----------------------------------------------------------------------------- C13: constant expressions
def _binop(name, fn):
    @pproof("py:parser.p_calculation_expression_" + name, "Parser.p_calculation_expression_" + name, ["C13", "C09"],
            must=["post:value"])
    def _p(E, PM, A):
        a, b = E.fresh("a"), E.fresh("b")
        E.assume(z3.And(a >= -(1 << 62), a < (1 << 62), b >= -(1 << 62), b < (1 << 62)))
        ps, _ = mk_parser(PM, A)
        p = PStub([None, SymInt(a), "op", SymInt(b)])
        st, r = no_internal_exception(E, "call", lambda: getattr(ps, "p_calculation_expression_" + name)(p))
        if st == "ok":
            E.oblige("post:value", lift(p[0]) == fn(a, b))
        else:
            E.oblige("post:value", False)


_binop("plus", lambda a, b: a + b)
_binop("minus", lambda a, b: a - b)
_binop("times", lambda a, b: a * b)


def _floordiv(a, b):
    q = a / b
    r = z3.SRem(a, b)
    return z3.If(z3.And(r != 0, (r < 0) != (b < 0)), q - 1, q)


@pproof("py:parser.p_calculation_expression_divide", "Parser.p_calculation_expression_divide", ["C13", "C09"],
        must=["post:value", "post:div0"])
def _div(E, PM, A):
    """b != 0: p[0] = floor(a / b); b == 0: a parser error citing the file and line (never ZeroDivisionError)"""
    import bitproto.errors as ER
    a, b = sym(E, "a"), sym(E, "b")
    ps, _ = mk_parser(PM, A)
    p = PStub([None, SymInt(a), "/", SymInt(b)], linenos={2: 42})
    st, r = no_internal_exception(E, "call", lambda: ps.p_calculation_expression_divide(p))
    if st == "ok":
        E.oblige("post:value", z3.And(b != 0, lift(p[0]) == _floordiv(a, b)))
    elif st == "parser-error":
        E.oblige("post:div0", z3.And(b == 0, z3.BoolVal(isinstance(r, ER.ParserError) and r.filepath == "f.bitproto"
                                                       and r.lineno in (42, 101, 103))))
    E.cover("requires")


@pproof("py:parser.p_calculation_expression_group", "Parser.p_calculation_expression_group", ["C13"], must=["post:identity"])
def _group(E, PM, A):
    a = sym(E, "a")
    ps, _ = mk_parser(PM, A)
    for fn, slots, k in (("p_calculation_expression_group", [None, "(", SymInt(a), ")"], 2),
                         ("p_calculation_expression", [None, SymInt(a)], 1),
                         ("p_array_capacity", [None, SymInt(a)], 1),
                         ("p_const_value", [None, SymInt(a)], 1),
                         ("p_integer_literal", [None, SymInt(a)], 1)):
        p = PStub(slots)
        getattr(ps, fn)(p)
        E.oblige("post:identity[%s]" % fn, lift(p[0]) == a)
    # option values: a referenced constant is unwrapped, a literal passes through
    p = PStub([None, SymInt(a)])
    ps.p_option_value(p)
    E.oblige("post:identity[p_option_value]", lift(p[0]) == a)
    c = A.IntegerConstant(name="C", value=SymInt(a))
    p = PStub([None, c])
    ps.p_option_value(p)
    E.oblige("post:unwrap[p_option_value]", lift(p[0]) == a)


@pproof("py:parser.p_constant_reference_for_calculation", "Parser.p_constant_reference_for_calculation", ["C13", "C09"],
        must=["post:"])
def _cref_calc(E, PM, A):
    """an IntegerConstant denotes its value; any other constant is a CalculationExpressionError citing file and line"""
    import bitproto.errors as ER
    a = sym(E, "a")
    ps, _ = mk_parser(PM, A)
    for fn, err in (("p_constant_reference_for_calculation", ER.CalculationExpressionError),
                    ("p_constant_reference_for_array_capacity", ER.InvalidArrayCap)):
        p = PStub([None, A.IntegerConstant(name="C", value=SymInt(a))])
        getattr(ps, fn)(p)
        E.oblige("post:int[%s]" % fn, lift(p[0]) == a)
        for other in (A.StringConstant(name="S", value="x"), A.BooleanConstant(name="B", value=True)):
            p = PStub([None, other], linenos={1: 9})
            st, r = no_internal_exception(E, "call[%s,%s]" % (fn, type(other).__name__), lambda: getattr(ps, fn)(p))
            E.oblige("post:non-int[%s,%s]" % (fn, type(other).__name__),
                     z3.BoolVal(st == "parser-error" and type(r) is err and r.filepath == "f.bitproto" and r.lineno == 9))


@pproof("py:parser.precedence", "Parser.precedence", ["C13", "C12"], must=["post:table"],      # C12: capacities written as expressions
        assumes=["PLY applies the `precedence` table and calls the action of the reduced production (external)"])
def _prec(E, PM, A):
    """* and / bind tighter than + and -, all left-associative"""
    E.oblige("post:table", z3.BoolVal(tuple(PM.Parser.precedence) == (("left", "PLUS", "MINUS"), ("left", "TIMES", "DIVIDE"))))
    import bitproto.lexer as LX
    E.oblige("post:operator-tokens", z3.BoolVal((LX.Lexer.t_PLUS, LX.Lexer.t_MINUS, LX.Lexer.t_TIMES, LX.Lexer.t_DIVIDE)
                                                == (r"\+", r"-", r"\*", r"/")))


@pproof("py:lexer.literals", "Lexer.t_HEX_LITERAL", ["C13", "C09"], file=LEXER, must=["post:"],
        assumes=["builtin int(text, base) parses a numeral of that base; PLY's matcher hands t_* only text matching its regex"])
def _lex_lits(E, PM, A):
    """hex / decimal literal tokens denote int(text, 16) / int(text); uintN / intN type tokens get cap = int(digits)"""
    import bitproto.lexer as LX
    calls = []

    def rec_int(*a):
        calls.append(a)
        return ("INT", a)
    saved = LX.__dict__.get("int")
    LX.int = rec_int
    try:
        lx = LX.Lexer.__new__(LX.Lexer)
        lx.filepath_stack = ["f.bitproto"]
        t = type("T", (), {})()
        t.value, t.lineno = "0x1F", 3
        lx.t_HEX_LITERAL(t)
        E.oblige("post:hex", z3.BoolVal(t.value == ("INT", ("0x1F", 16))))
        t.value = "0123"
        lx.t_INT_LITERAL(t)
        E.oblige("post:dec", z3.BoolVal(t.value == ("INT", ("0123",))))
    finally:
        if saved is None:
            LX.__dict__.pop("int", None)
        else:
            LX.int = saved
    for txt, want in (("true", True), ("yes", True), ("false", False), ("no", False)):
        t.value = txt
        lx.t_BOOL_LITERAL(t)
        E.oblige("post:bool[%s]" % txt, z3.BoolVal(t.value is want))
    with ast_module() as A2:
        for fn, txt, cls, cap in (("t_UINT_TYPE", "uint17", "Uint", 17), ("t_INT_TYPE", "int64", "Int", 64),
                                  ("t_UINT_TYPE", "uint1", "Uint", 1)):
            t.value = txt
            getattr(lx, fn)(t)
            E.oblige("post:type[%s]" % txt, z3.BoolVal(type(t.value).__name__ == cls and t.value.cap == cap
                                                      and t.value.lineno == 3 and t.value.filepath == "f.bitproto"))
        import bitproto.errors as ER
        for fn, txt, err in (("t_UINT_TYPE", "uint0", ER.InvalidUintCap), ("t_UINT_TYPE", "uint65", ER.InvalidUintCap),
                             ("t_INT_TYPE", "int0", ER.InvalidIntCap), ("t_INT_TYPE", "int99999999999999999999", ER.InvalidIntCap)):
            t.value = txt
            st, r = no_internal_exception(E, "call[%s]" % txt, lambda: getattr(lx, fn)(t))
            E.oblige("post:type-rejected[%s]" % txt, z3.BoolVal(st == "parser-error" and type(r) is err and r.lineno == 3))


# ----------------------------------------------------------------------------- C11: name resolution
class AbsScopes:
    """abstract scope stack view [lo, hi) of symbolic length; element j finds the name iff has(j)"""

    def __init__(self, lo, hi, has, rev=False):
        self.lo, self.hi, self.has, self.rev = lo, hi, has, rev

    def __getitem__(self, k):
        if isinstance(k, slice):
            if k == slice(None, None, -1):
                return AbsScopes(self.lo, self.hi, self.has, not self.rev)
            if k.stop is None and k.step is None and k.start is not None and not self.rev:
                return AbsScopes(self.lo + lift(k.start, self.lo), self.hi, self.has)
            raise EN.Unsupported("slice %r of the abstract scope stack" % (k,))
        if isinstance(k, SymInt) and not self.rev:
            j = self.lo + lift(k, self.lo)
            EN.cur().oblige("index-in-range:scope_stack[sym]", z3.And(j >= self.lo, j < self.hi), kind="index-in-range")
            return AbsScope(j, self.has)
        if isinstance(k, int) and not self.rev:
            # direct indexing (k >= 0 from the bottom, k < 0 from the top); in range is an obligation
            j = (self.lo + k) if k >= 0 else (self.hi + k)
            EN.cur().oblige("index-in-range:scope_stack[%d]" % k, z3.And(j >= self.lo, j < self.hi), kind="index-in-range")
            return AbsScope(j, self.has)
        raise EN.Unsupported("indexing the abstract scope stack outside the cut loop")

    def __reversed__(self):
        return AbsScopes(self.lo, self.hi, self.has, not self.rev)

    def __iter__(self):
        raise EN.Unsupported("iteration over the abstract scope stack outside the cut loop")

    def __len__(self):
        raise EN.Unsupported("len of abstract scope stack")

    def sym_len(self):
        return wrap(self.hi - self.lo)

    def sym_get(self, r):
        rt = lift(r, self.lo)
        j = (self.hi - 1 - rt) if self.rev else (self.lo + rt)
        return AbsScope(j, self.has)


class Found:
    def __init__(self, j):
        self.j = j


class AbsScope:
    def __init__(self, j, has):
        self.j, self.has = j, has
        self.calls = []

    def get_member(self, *names):
        LOOKUPS.append((self.j, names))
        if EN.cur().branch(self.has(self.j)):
            return Found(self.j)
        return None


LOOKUPS: list = []


class LookupLoop(LoopSpec):
    model = "int"

    def bind(self, n, start, has):
        self.n, self.start, self.has = n, start, has

    def seq(self, it):
        if not isinstance(it, AbsScopes):
            raise EN.Unsupported("loop over %r" % type(it))
        self.view = it
        return it

    def inv(self, loc):
        r = lift(loc["vc_i1_"], self.n)
        j = z3.Int("j")
        return [("range", z3.And(r >= 0, r <= self.view.hi - self.view.lo)),
                ("inner-scopes-missed", z3.ForAll([j], z3.Implies(z3.And(j > self.view.hi - 1 - r, j < self.view.hi), z3.Not(self.has(j)))))
                if self.view.rev else ("order", z3.BoolVal(False))]

    def variant(self, loc):
        return (self.view.hi - self.view.lo) - lift(loc["vc_i1_"], self.n)


@pproof("py:parser._lookup_referenced_member", "Parser._lookup_referenced_member", ["C11", "C08", "C12"],
        cuts={("Parser._lookup_referenced_member", 1): "loop1"},
        must=["post:innermost", "post:none", "loop1/inv-preserve#inner-scopes-missed"],
        calls=["Scope.get_member", "Parser.scope_stack_in_current_proto"],
        assumes=["str.split('.') splits a dotted identifier into its components (external)"])
def _lookup(E, PM, A, vc):
    """result = get_member(*identifier.split('.')) of the INNERMOST scope of the current proto (stack index >= init length)
    for which it is not None; None if no such scope"""
    del LOOKUPS[:]
    n, start = E.fresh("n", "int"), E.fresh("start", "int")
    has = z3.Function("has", z3.IntSort(), z3.BoolSort())
    E.assume(z3.And(0 <= start, start < n, n <= 64))       # the current file's Proto scope is always on the stack
    ps = PM.Parser.__new__(PM.Parser)
    full = AbsScopes(z3.IntVal(0), n, has)
    ps.scope_stack = full                       # the whole stack, including the importing files' scopes [0, start)
    ps.scope_stack_init_length = SymInt(start)
    ps.scope_stack_in_current_proto = lambda: AbsScopes(start, n, has)      # contract of that method (proved below)
    sp = LookupLoop()
    sp.bind(n, start, has)
    vc.specs["loop1"] = sp
    ident = "Outer.Inner" if E.branch(E.fresh("dotted", "bool")) else "Name"
    r = ps._lookup_referenced_member(ident)
    j = z3.Int("j")
    ok_names = all(names == tuple(ident.split(".")) for _, names in LOOKUPS)
    E.oblige("post:names", z3.BoolVal(ok_names))
    if r is None:
        E.oblige("post:none", z3.ForAll([j], z3.Implies(z3.And(j >= start, j < n), z3.Not(has(j)))))
    elif isinstance(r, Found):
        E.oblige("post:innermost", z3.And(r.j >= start, r.j < n, has(r.j),
                                          z3.ForAll([j], z3.Implies(z3.And(j > r.j, j < n), z3.Not(has(j))))))
    else:
        E.oblige("post:innermost", False)


@pproof("py:parser.scope_stack_in_current_proto", "Parser.scope_stack_in_current_proto", ["C11", "C17", "C09"], must=["post:suffix"])
def _ssicp(E, PM, A):
    """returns exactly the scopes pushed since this (possibly imported) file started: scope_stack[init_length:]"""
    ps = PM.Parser.__new__(PM.Parser)
    objs = [object() for _ in range(5)]
    for k in range(6):
        ps.scope_stack = list(objs)
        ps.scope_stack_init_length = k
        r = ps.scope_stack_in_current_proto()
        E.oblige("post:suffix[%d]" % k, z3.BoolVal(tuple(r) == tuple(objs[k:])), props=["C11"])
    # a child parser shares the parent's stack and starts after it
    ps2 = PM.Parser.__new__(PM.Parser)
    ps2.scope_stack = list(objs[:3])
    ps2.filepath_stack, ps2.comment_block, ps2.traditional_mode = ["a"], [object()], True     # a comment is pending at the import
    made = {}

    class FakeParser:
        def __init__(self, **kw):
            made.update(kw)

        def parse(self, fp):
            made["parsed"] = fp
            return "CHILD"
    saved = PM.Parser
    PM.Parser = FakeParser
    try:
        res = saved.parse_child(ps2, "x.bitproto")
    finally:
        PM.Parser = saved
    E.oblige("post:child-shares-state", z3.BoolVal(res == "CHILD" and made.get("scope_stack") is ps2.scope_stack
                                                   and made.get("filepath_stack") is ps2.filepath_stack
                                                   and made.get("traditional_mode") is True and made.get("parsed") == "x.bitproto"),
             props=["C11", "C17"])
    # the child appends the comments it meets to the block it is given (push_comment): it must be a list, also when comments are pending
    E.oblige("post:child-comment-block-is-a-list", z3.BoolVal(type(made.get("comment_block")) is list), props=["C09", "C11"])


@pproof("py:_ast.Scope.get_member", "Scope.get_member", ["C11"], file="compiler/bitproto/_ast.py", must=["post:"])
def _get_member(E, PM, A):
    """follows the names one scope at a time: the member reached, None if a step is missing or a non-final step is not a scope"""
    proto = A.Proto(name="p")
    outer = A.Message(name="Outer", _bound=proto)
    inner = A.Message(name="Inner", _bound=proto)
    en = A.Enum(name="E", type=A.Uint(cap=3), _bound=proto)
    al = A.Alias(name="T", type=A.Uint(cap=3), _bound=proto)
    inner.push_member(en)
    outer.push_member(inner)
    outer.push_member(al)
    proto.push_member(outer)
    cases = [((), None), (("Outer",), outer), (("Outer", "Inner"), inner), (("Outer", "Inner", "E"), en),
             (("Outer", "T"), al), (("Outer", "T", "x"), None), (("Inner",), None), (("Outer", "Nope"), None),
             (("Outer", "Inner", "E", "Z"), None), (("outer",), None)]
    for names, want in cases:
        E.oblige("post:%s" % ".".join(names), z3.BoolVal(proto.get_member(*names) is want))
    # an open scope gives no stale answer: a name that was missing is found once it has been declared
    late = A.Enum(name="Nope", type=A.Uint(cap=6), _bound=proto)
    outer.push_member(late)
    E.oblige("post:no-stale-miss", z3.BoolVal(proto.get_member("Outer", "Nope") is late and outer.get_member("Nope") is late))
    E.oblige("post:still-missing", z3.BoolVal(outer.get_member("Never") is None))


def _refs(kind):
    fn = "p_%s_reference" % kind

    @pproof("py:parser." + fn, "Parser." + fn, ["C11", "C08", "C09"], must=["post:"], calls=["Parser._lookup_referenced_member"])
    def _p(E, PM, A):
        """lookup None -> Referenced{Type,Constant}NotDefined; wrong kind -> ReferencedNot{Type,Constant}; otherwise p[0] IS the
        resolved definition and a Reference with the token's file/line/column is recorded"""
        import bitproto.errors as ER
        ps, proto = mk_parser(PM, A)
        good = A.Alias(name="T", type=A.Uint(cap=3), _bound=proto) if kind == "type" else A.IntegerConstant(name="C", value=3)
        bad = A.IntegerConstant(name="C", value=3) if kind == "type" else A.Alias(name="T", type=A.Uint(cap=3), _bound=proto)
        e_undef = ER.ReferencedTypeNotDefined if kind == "type" else ER.ReferencedConstantNotDefined
        e_kind = ER.ReferencedNotType if kind == "type" else ER.ReferencedNotConstant
        for tag, found, err in (("undefined", None, e_undef), ("wrong-kind", bad, e_kind), ("ok", good, None)):
            asked = []
            ps._lookup_referenced_member = lambda ident: (asked.append(ident), found)[1]
            p = PStub([None, "a.B"], linenos={1: 12}, lexposs={1: 30}, lexdata="x" * 20 + "\n" + "y" * 40)
            st, r = no_internal_exception(E, "call[%s]" % tag, lambda: getattr(ps, fn)(p))
            if err is not None:
                E.oblige("post:%s" % tag, z3.BoolVal(st == "parser-error" and type(r) is err and r.filepath == "f.bitproto"
                                                     and r.lineno == 12 and r.token == "a.B"))
            else:
                refs = proto.references
                E.oblige("post:%s" % tag, z3.BoolVal(st == "ok" and p[0] is good and asked == ["a.B"] and len(refs) == 1
                                                     and refs[0].referenced_definition is good and refs[0].lineno == 12
                                                     and refs[0].token == "a.B" and refs[0].filepath == "f.bitproto"
                                                     and refs[0].token_col_start == 10))
    return _p


_refs("type")
_refs("constant")


# ----------------------------------------------------------------------------- C17: traditional mode
@pproof("py:parser.p_optional_extensible_flag", "Parser.p_optional_extensible_flag", ["C17", "C08"], must=["post:"])
def _extflag(E, PM, A):
    """raises ExtensibleGrammarFoundInTraditionalMode  <=>  the marker is present and traditional mode is on"""
    import bitproto.errors as ER
    for trad in (False, True):
        for marker in (False, True):
            ps, _ = mk_parser(PM, A, traditional=trad)
            p = PStub([None, "'"] if marker else [None], linenos={1: 5})
            st, r = no_internal_exception(E, "call[%s,%s]" % (trad, marker), lambda: ps.p_optional_extensible_flag(p))
            if trad and marker:
                E.oblige("post:refused[%s,%s]" % (trad, marker),
                         z3.BoolVal(st == "parser-error" and type(r) is ER.ExtensibleGrammarFoundInTraditionalMode
                                    and r.lineno == 5 and r.filepath == "f.bitproto"))
            else:
                E.oblige("post:flag[%s,%s]" % (trad, marker), z3.BoolVal(st == "ok" and p[0] is marker))


# ----------------------------------------------------------------------------- C20: positions
@pproof("py:parser._get_col", "Parser._get_col", ["C20"], must=["post:column"],
        assumes=["str.rfind(sub, 0, end) returns the largest index < end of the character, or -1 (modelled by its specification)"])
def _get_col(E, PM, A):
    """column of token k = 1 + number of characters between the preceding newline (or the start of the text) and the token,
    on EVERY line (one convention: 1-based, as the language server documents)"""
    lexpos, nl = E.fresh("lexpos", "int"), E.fresh("last_newline", "int")
    E.assume(z3.And(lexpos >= 0, nl >= -1, nl < lexpos))       # specification of rfind("\n", 0, lexpos)

    class Data:
        def rfind(self, ch, a, b):
            ok = ch == "\n" and a == 0 and isinstance(b, SymInt) and z3.eq(b.t, lexpos)
            E.oblige("post:rfind-args", z3.BoolVal(ok))
            return SymInt(nl)
    ps, _ = mk_parser(PM, A)
    p = PStub([None, "x", "y"], lexposs={2: SymInt(lexpos)}, lexdata=Data())
    r = ps._get_col(p, 2)
    E.oblige("post:column", lift(r, lexpos) == lexpos - nl)


@pproof("py:parser.current_indent", "Parser.current_indent", ["C20"], must=["post:indent"])
def _indent(E, PM, A):
    """indent = characters between the last newline and the token (-1 when that is negative)"""
    lexpos, nl = E.fresh("lexpos", "int"), E.fresh("nl", "int")
    E.assume(z3.And(lexpos >= 0, nl >= 0))
    ps, _ = mk_parser(PM, A)
    ps.last_newline_pos = SymInt(nl)
    p = PStub([None, "x"], lexposs={1: SymInt(lexpos)})
    r = ps.current_indent(p)
    d = lexpos - nl - 1
    E.oblige("post:indent", lift(r, lexpos) == z3.If(d < 0, -1, d))


# ----------------------------------------------------------------------------- C09: total action functions
@pproof("py:parser.p_error", "Parser.p_error", ["C09", "C08"], must=["post:"])
def _p_error(E, PM, A):
    """every shape of p (None at eof, a LexToken, a production) is converted to GrammarError citing the file"""
    import bitproto.errors as ER
    ps, _ = mk_parser(PM, A)
    st, r = no_internal_exception(E, "call[eof]", lambda: ps.p_error(None))
    E.oblige("post:eof", z3.BoolVal(st == "parser-error" and type(r) is ER.GrammarError and r.filepath == "f.bitproto"))
    tok = PM.LexToken()
    tok.type, tok.value, tok.lineno, tok.lexpos = "IDENTIFIER", "zzz", 17, 3
    st, r = no_internal_exception(E, "call[token]", lambda: ps.p_error(tok))
    E.oblige("post:token", z3.BoolVal(st == "parser-error" and type(r) is ER.GrammarError and r.filepath == "f.bitproto"
                                      and r.lineno == 17 and r.token == "zzz"))
    tok.value = 5
    st, r = no_internal_exception(E, "call[int-token]", lambda: ps.p_error(tok))
    E.oblige("post:int-token", z3.BoolVal(st == "parser-error" and r.token == "5"))


@pproof("py:parser.p_array_type", "Parser.p_array_type", ["C09", "C08"], must=["post:"])
def _p_array_type(E, PM, A):
    """builds Array(element, cap, extensible) citing the token's line; an out-of-range capacity is the validator's
    InvalidArrayCap (a parser error), for every integer capacity"""
    import bitproto.errors as ER
    cap = sym(E, "cap")
    ps, _ = mk_parser(PM, A)
    p = PStub([None, A.Uint(cap=8), "[", SymInt(cap), "]", False], linenos={2: 33}, lexposs={1: 9}, lexdata="x\n" + " " * 40)
    st, r = no_internal_exception(E, "call", lambda: ps.p_array_type(p))
    valid = z3.And(cap >= 1, cap <= 65535)
    if st == "ok":
        E.oblige("post:built", z3.And(valid, lift(p[0].cap) == cap, z3.BoolVal(p[0].extensible is False and p[0].lineno == 33
                                                                             and p[0].filepath == "f.bitproto")))
    else:
        E.oblige("post:rejected", z3.And(z3.Not(valid), z3.BoolVal(st == "parser-error" and type(r) is ER.InvalidArrayCap
                                                                  and r.lineno == 33)))


@pproof("py:parser.p_enum_field", "Parser.p_enum_field", ["C09", "C08", "C20"], must=["post:"])
def _p_enum_field(E, PM, A):
    """pushes EnumField(name, value) citing the name token's line into the current enum; a negative / overflowing / duplicate
    value is a parser error"""
    import bitproto.errors as ER
    v = E.fresh("value")
    E.assume(z3.And(v >= -5, v < 1000))
    with_stack = None
    ps, proto = mk_parser(PM, A)
    en = A.Enum(name="E", type=A.Uint(cap=4), _bound=proto)
    ps.scope_stack.append(en)
    p = PStub([None, "NAME", "=", SymInt(v)], linenos={1: 21}, lexposs={1: 14}, lexdata="enum E:uint4{\n    NAME = 1\n}")
    ps.last_newline_pos = 13
    st, r = no_internal_exception(E, "call", lambda: ps.p_enum_field(p))
    valid = z3.And(v >= 0, v < 16)
    if st == "ok":
        f = en.members.get("NAME")
        E.oblige("post:pushed", z3.And(valid, z3.BoolVal(f is not None and f.lineno == 21 and f.filepath == "f.bitproto"
                                                        and f.token == "NAME" and f.token_col_start == 1 and f.indent == 0),
                                       lift(f.value) == v if f is not None else False))
    else:
        E.oblige("post:rejected", z3.And(z3.Not(valid), z3.BoolVal(st == "parser-error" and r.lineno == 21
                                                                  and type(r) in (ER.InvalidEnumFieldValue, ER.EnumFieldValueOverflow))))


@pproof("py:parser.p_message_field", "Parser.p_message_field", ["C09", "C08", "C20"], must=["post:"])
def _p_message_field(E, PM, A):
    """pushes MessageField(name, type, number) citing the name token's line; number outside 1..255 is a parser error"""
    import bitproto.errors as ER
    n = sym(E, "number")
    ps, proto = mk_parser(PM, A)
    m = A.Message(name="M", _bound=proto)
    ps.scope_stack.append(m)
    t = A.Uint(cap=7)
    p = PStub([None, t, "fname", "=", SymInt(n)], linenos={2: 8}, lexposs={1: 20, 2: 26}, lexdata="message M {\n" + " " * 8 + "uint7 fname = 1\n}")
    ps.last_newline_pos = 11
    st, r = no_internal_exception(E, "call", lambda: ps.p_message_field(p))
    valid = z3.And(n >= 1, n <= 255)
    if st == "ok":
        f = m.members.get("fname")
        E.oblige("post:pushed", z3.And(valid, z3.BoolVal(f is not None and f is p[0] and f.type is t and f.lineno == 8
                                                        and f.token == "fname" and f.filepath == "f.bitproto"
                                                        and f.token_col_start == 15 and f.indent == 8),
                                       lift(f.number) == n if f is not None else False))
    else:
        E.oblige("post:rejected", z3.And(z3.Not(valid), z3.BoolVal(st == "parser-error" and type(r) is ER.InvalidMessageFieldNumber
                                                                  and r.lineno == 8)))


@pproof("py:parser.p_option", "Parser.p_option", ["C09", "C08"], must=["post:"])
def _p_option(E, PM, A):
    """integer / boolean / string values give the matching Option class pushed into the current scope; an invalid value or an
    unknown name is a parser error citing the name token's line"""
    import bitproto.errors as ER
    v = sym(E, "v")
    ps, proto = mk_parser(PM, A)
    m = A.Message(name="M", _bound=proto)
    ps.scope_stack.append(m)
    p = PStub([None, "option", "max_bytes", "=", SymInt(v)], linenos={2: 4}, lexposs={1: 5, 2: 12}, lexdata="aaaa\n" + " " * 30)
    st, r = no_internal_exception(E, "call[int]", lambda: ps.p_option(p))
    if st == "ok":
        o = m.members.get("max_bytes")
        E.oblige("post:int-accepted", z3.And(v >= 0, z3.BoolVal(type(o).__name__ == "IntegerOption" and o.lineno == 4)))
    else:
        E.oblige("post:int-rejected", z3.And(v < 0, z3.BoolVal(st == "parser-error" and type(r) is ER.InvalidOptionValue and r.lineno == 4)))
    for tag, name, val, okcls, err in (("bool-for-int", "max_bytes", True, None, ER.InvalidOptionValue),
                                       ("str-for-int", "max_bytes", "x", None, ER.InvalidOptionValue),
                                       ("unknown", "nope", 1, None, ER.UnsupportedOption)):
        ps2, proto2 = mk_parser(PM, A)
        m2 = A.Message(name="M", _bound=proto2)
        ps2.scope_stack.append(m2)
        p = PStub([None, "option", name, "=", val], linenos={2: 4}, lexposs={1: 5, 2: 12}, lexdata="aaaa\n" + " " * 30)
        st, r = no_internal_exception(E, "call[%s]" % tag, lambda: ps2.p_option(p))
        E.oblige("post:" + tag, z3.BoolVal(st == "parser-error" and type(r) is err and r.lineno == 4 and name not in m2.members))


@pproof("py:parser.p_dotted_identifier", "Parser.p_dotted_identifier", ["C20", "C11"], must=["post:"])
def _dotted(E, PM, A):
    """a dotted name is the components joined by '.', and it carries the line and position of its FIRST token in both forms
    (IDENTIFIER and IDENTIFIER '.' dotted_identifier) - references, options and diagnostics take their position from it"""
    ps, _ = mk_parser(PM, A)
    for slots, want in (([None, "a"], "a"), ([None, "a", ".", "b.c"], "a.b.c")):
        p = PStub(list(slots), linenos={0: 0, 1: 31}, lexposs={0: 0, 1: 77})
        ps.p_dotted_identifier(p)
        E.oblige("post:name[%s]" % want, z3.BoolVal(p[0] == want))
        E.oblige("post:position[%s]" % want, z3.BoolVal(p.lineno(0) == 31 and p.lexpos(0) == 77))
    for fn, slots in (("p_type", [None, "T"]), ("p_single_type", [None, "T"]), ("p_base_type", [None, "T"]),
                      ("p_message_field_name", [None, "n"])):
        p = PStub(list(slots), linenos={0: 0, 1: 12}, lexposs={0: 0, 1: 40})
        getattr(ps, fn)(p)
        E.oblige("post:pass-through[%s]" % fn, z3.BoolVal(p[0] == slots[1] and p.lineno(0) == 12 and p.lexpos(0) == 40))


@pproof("py:parser._check_parsing_file", "Parser._check_parsing_file", ["C08", "C09"], must=["post:same-file"],
        calls=["os.path.samefile"], assumes=["os.path.samefile(a, b) decides whether two paths name the same file (external)"])
def _cycle(E, PM, A):
    """an import is cyclic  <=>  the file is THE SAME FILE (os.path.samefile, not string equality) as one being parsed; then p_import
    raises CyclicImport instead of recursing"""
    ps, _ = mk_parser(PM, A)
    stack = ["/x/a.bitproto", "/x/sub/../b.bitproto", "/x/c.bitproto"]
    ps.filepath_stack = list(stack)
    same = {k: E.fresh("same%d" % k, "bool") for k in range(3)}
    asked = []

    class FakePath:
        def samefile(self, a, b):
            other = b if a == "/x/b.bitproto" else a
            asked.append((a, b))
            return EN.cur().branch(same[stack.index(other)]) if other in stack else False

        def __getattr__(self, n):
            import os.path as real
            return getattr(real, n)

    class FakeOs:
        path = FakePath()

        def __getattr__(self, n):
            import os as real
            return getattr(real, n)
    saved = PM.os
    PM.os = FakeOs()
    try:
        r = ps._check_parsing_file("/x/b.bitproto")
    finally:
        PM.os = saved
    E.oblige("post:same-file", z3.BoolVal(bool(r)) == z3.Or(*same.values()))



@pproof("py:parser._lookup_referenced_member/no-stale-answer", "Parser._lookup_referenced_member", ["C11", "C08"], must=["post:"])
def _lookup_fresh(E, PM, A):
    """resolution reads the scopes as they are NOW: a name resolved to an outer definition resolves to the inner one as soon as an
    inner definition of that name has been declared in the open scope (a real Parser object built by its own constructor, real
    scopes; one two-call history per name form)"""
    ps = PM.Parser()
    proto = A.Proto(name="p", filepath="f.bitproto")
    outer_x = A.Alias(name="X", type=A.Uint(cap=3), _bound=proto)
    outer_b = A.Message(name="B", _bound=proto)
    outer_bx = A.Alias(name="X", type=A.Uint(cap=5), _bound=proto)
    outer_b.push_member(outer_bx)
    proto.push_member(outer_x)
    proto.push_member(outer_b)
    m = A.Message(name="M", _bound=proto)
    ps.scope_stack = [proto, m]
    ps.filepath_stack = ["f.bitproto"]
    ps.scope_stack_init_length = 0
    first = (ps._lookup_referenced_member("X"), ps._lookup_referenced_member("B.X"))
    E.oblige("post:outer-before-shadowing", z3.BoolVal(first[0] is outer_x and first[1] is outer_bx))
    inner_x = A.Alias(name="X", type=A.Uint(cap=9), _bound=proto)
    inner_b = A.Message(name="B", _bound=proto)
    inner_bx = A.Alias(name="X", type=A.Uint(cap=11), _bound=proto)
    inner_b.push_member(inner_bx)
    m.push_member(inner_x)
    m.push_member(inner_b)
    E.oblige("post:inner-after-shadowing", z3.BoolVal(ps._lookup_referenced_member("X") is inner_x))
    E.oblige("post:inner-after-shadowing(dotted)", z3.BoolVal(ps._lookup_referenced_member("B.X") is inner_bx))
    # and from another scope the outer ones are still what is visible
    other = A.Message(name="N", _bound=proto)
    ps.scope_stack = [proto, other]
    E.oblige("post:other-scope-unaffected", z3.BoolVal(ps._lookup_referenced_member("X") is outer_x
                                                         and ps._lookup_referenced_member("B.X") is outer_bx))


@pproof("py:parser.parse_string/errors-cite-file-and-line", "Parser.parse_string", ["C20", "C09"], must=["post:"])
def _errors_cite_file(E, PM, A):
    """a violation in the ROOT file - also one met by the lexer (stray character, bad escape, integer width) - is reported as a
    ParserError carrying that file's path and the line of the violation (real Parser and Lexer objects built by their own constructors;
    one obligation per kind of violation)"""
    import bitproto.errors as ER
    cases = [("stray-character", "proto a\n$\n", 2), ("uint-width", "proto a\nmessage M {\n    uint65 x = 1\n}\n", 3),
             ("int-width", "proto a\n\n\nmessage M {\n    int0 x = 1\n}\n", 5), ("bad-escape", 'proto a\nconst S = "\\q"\n', 2),
             ("grammar", "proto a\nmessage {\n}\n", 2), ("undefined-type", "proto a\nmessage M {\n    Nope x = 1\n}\n", 3)]
    for name, src, line in cases:
        try:
            PM.parse_string(src, filepath="dir/f.bitproto")
            got = "accepted"
        except ER.ParserError as e:
            got = (e.filepath, e.lineno)
        E.oblige("post:%s%s" % (name, "" if got == ("dir/f.bitproto", line) else " (got %r)" % (got,)), z3.BoolVal(got == ("dir/f.bitproto", line)))


@pproof("py:parser.p_import", "Parser.p_import", ["C08", "C11", "C20"], must=["post:"],
        calls=["Parser._get_child_filepath", "Parser._check_parsing_file", "Parser.parse_child", "os.path.samefile"])
def _p_import(E, PM, A):
    """the imported proto is declared under the name the import statement GIVES it - the `as` name when there is one, else the
    file's own proto name - and the import is rejected with DuplicatedDefinition (citing the importing file and the line of the
    import) exactly when THAT name is already declared in the importing proto; otherwise p[0] is the child and it is a member under
    that name"""
    import bitproto.errors as ER

    def scenario(alias, taken):
        ps, proto = mk_parser(PM, A, filepath="main.bitproto")
        for nm in taken:
            proto.push_member(A.Message(name=nm, _bound=proto), nm)
        child = A.Proto(name="units", filepath="/x/units.bitproto")
        ps._get_child_filepath = lambda path: "/x/units.bitproto"
        ps._check_parsing_file = lambda fp: False
        ps.parse_child = lambda fp: child
        slots = [None, "import", '"units.bitproto"', ";"] if alias is None else [None, "import", alias, '"units.bitproto"', ";"]
        p = PStub(slots, linenos={1: 7, 2: 7, 3: 7})
        try:
            ps.p_import(p)
            return ("ok", p[0] is child, [k for k, v in proto.members.items() if v is child])
        except ER.DuplicatedDefinition as e:
            return ("dup", e.filepath, e.lineno)
    want_dup = ("dup", "main.bitproto", 7)
    E.oblige("post:plain/free", z3.BoolVal(scenario(None, []) == ("ok", True, ["units"])))
    E.oblige("post:plain/own-name-taken", z3.BoolVal(scenario(None, ["units"]) == want_dup))
    E.oblige("post:as/free", z3.BoolVal(scenario("u2", []) == ("ok", True, ["u2"])))
    E.oblige("post:as/own-name-taken-but-alias-free", z3.BoolVal(scenario("u2", ["units"]) == ("ok", True, ["u2"])))
    E.oblige("post:as/alias-taken", z3.BoolVal(scenario("Base", ["Base"]) == want_dup))
