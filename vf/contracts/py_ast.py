"""Side-car contracts for /repo/compiler/bitproto/_ast.py and options.py (validators: C08; size arithmetic: C01/C07).

The real package is imported from the working tree; nodes are really constructed, so the
@frozen -> __post_freeze__ -> validate_post_freeze plumbing is part of what runs.  Module globals
`int`, `isinstance`, `dict_` of bitproto._ast are shadowed by proxy-aware versions for the duration
of a proof (the file is untouched)."""
from __future__ import annotations

import contextlib
import traceback
from collections import OrderedDict
from typing import Callable, List, Optional

import z3

from ..core.registry import ProofDef, ProofResult, register
from ..pysym import engine as EN
from ..pysym import loader
from ..pysym.proxies import SymInt, SymBool, wrap, lift, lift_bool, sym_int, sym_isinstance, sym_len
from ..spec.bits import bv, pow2

AST = "compiler/bitproto/_ast.py"
OPT = "compiler/bitproto/options.py"


class SymDict(OrderedDict):
    """OrderedDict whose membership test understands symbolic integer keys (forks per key)."""

    def __contains__(self, key):
        if isinstance(key, SymInt):
            ks = [k for k in self.keys() if isinstance(k, int)]
            if not ks:
                return False
            return bool(wrap(z3.Or(*[key.t == lift(k, key.t) for k in ks])))
        return OrderedDict.__contains__(self, key)


@contextlib.contextmanager
def ast_module():
    import bitproto._ast as A
    saved = {k: A.__dict__.get(k, None) for k in ("int", "isinstance", "dict_", "len", "_ENABLE_CACHE_ON_AST_FROZEN")}
    A.int, A.isinstance, A.dict_, A.len = sym_int, sym_isinstance, SymDict, sym_len
    A._ENABLE_CACHE_ON_AST_FROZEN = False
    try:
        yield A
    finally:
        for k, v in saved.items():
            if v is None:
                A.__dict__.pop(k, None)
            else:
                A.__dict__[k] = v


def astproof(pid: str, func: str, props: List[str], file: str = AST, must=None, calls=None, assumes=None, doc=""):
    def deco(body: Callable):
        def run(concrete=None) -> ProofResult:
            res = ProofResult(pid=pid, obls=[])
            try:
                src = loader.read_src(file)
                seg, line = loader.func_source(src, func)
                res.sha, res.line = loader.func_sha(src, func), line
                E = EN.Engine(pid, func, "%s:%d" % (file, line), props, srcfile=loader.os.path.join(loader.REPO, file))
                E.concrete = concrete
                with ast_module() as A:
                    E.explore(lambda: body(E, A))
                res.obls, res.paths = E.obls, E.completed_paths
                missing = [m for m in (must or []) if not any(l.startswith(m) for l in E.labels_seen)]
                if missing:
                    res.error = "labels never generated (vacuous proof?): %r" % missing
                if not E.obls:
                    res.error = "no obligations generated"
            except KeyError as e:
                res.error = "target not found: %r" % (e,)
            except EN.Unsupported as e:
                res.error = "unsupported construct: %s" % (e,)
                try:
                    res.obls = E.obls       # keep what was generated before the engine gave up (refutations still count)
                except NameError:
                    pass
            except Exception as e:
                res.error = "engine exception: %r\n%s" % (e, traceback.format_exc(limit=-6))
            return res
        register(ProofDef(pid=pid, func=func, file=file, props=props, run=run, must_labels=must or [],
                          doc=doc or (body.__doc__ or ""), calls=calls or [], assumes=assumes or []))
        return body
    return deco


TOK = dict(token="tok", lineno=7, filepath="f.bitproto")


def raises_iff(E, label, thunk, exc, cond, extra_ok=None):
    """two-sided contract:  thunk() raises `exc` (carrying the node's file and line)  <=>  cond.
    Any other exception type is a failed `no-exception` obligation."""
    import bitproto.errors as ER
    try:
        thunk()
        raised = None
    except ER.ParserError as e:
        raised = e
    if raised is None:
        E.oblige(label + "/accepted-only-if-valid", z3.Not(cond))
    else:
        E.oblige(label + "/rejected-only-if-invalid", cond)
        E.oblige(label + "/error-class", z3.BoolVal(type(raised) is exc))
        E.oblige(label + "/error-cites-node", z3.BoolVal(raised.filepath == TOK["filepath"] and raised.lineno == TOK["lineno"]))
    return raised


def S(E, name):
    return SymInt(E.fresh(name))


BOUND = 1 << 100      # symbolic integers range over [-2^100, 2^100): far beyond any boundary the validators test


def sym(E, name):
    x = E.fresh(name)
    E.assume(z3.And(x >= -BOUND, x < BOUND))
    return x


# ----------------------------------------------------------------------------- integer widths
for _cls, _err in (("Uint", "InvalidUintCap"), ("Int", "InvalidIntCap")):
    @astproof("py:_ast.%s.validate_post_freeze" % _cls, "%s.validate_post_freeze" % _cls, ["C08"],
              must=["cap/accepted-only-if-valid", "cap/rejected-only-if-invalid"])
    def _p(E, A, cls=_cls, err=_err):
        """raises Invalid{Uint,Int}Cap  <=>  not (1 <= cap <= 64)"""
        import bitproto.errors as ER
        cap = sym(E, "cap")
        raises_iff(E, "cap", lambda: getattr(A, cls)(cap=SymInt(cap), **TOK), getattr(ER, err),
                   z3.Not(z3.And(cap >= 1, cap <= 64)))
        E.cover("requires")


@astproof("py:_ast.Array.validate_array_cap", "Array.validate_array_cap", ["C08", "C05"],
          must=["cap/accepted-only-if-valid", "cap/rejected-only-if-invalid"])
def _arr_cap(E, A):
    """raises InvalidArrayCap  <=>  not (1 <= cap <= 65535)"""
    import bitproto.errors as ER
    cap = sym(E, "cap")
    raises_iff(E, "cap", lambda: A.Array(element_type=A.Uint(cap=8), cap=SymInt(cap), **TOK), ER.InvalidArrayCap,
               z3.Not(z3.And(cap >= 1, cap <= 65535)))


@astproof("py:_ast.Array.validate_array_element_type", "Array.validate_array_element_type", ["C08"],
          must=["elem:"])
def _arr_elem(E, A):
    """raises UnsupportedArrayType  <=>  the element is not bool/byte/int/uint/enum/message/alias (in particular: an array)"""
    import bitproto.errors as ER
    proto = A.Proto(name="p")
    ok = {
        "bool": A.Bool(), "byte": A.Byte(), "int": A.Int(cap=5), "uint": A.Uint(cap=5),
        "enum": A.Enum(name="E", type=A.Uint(cap=3), _bound=proto), "message": A.Message(name="M", _bound=proto),
        "alias": A.Alias(name="T", type=A.Uint(cap=3), _bound=proto),
    }
    bad = {"array": A.Array(element_type=A.Uint(cap=8), cap=2), "base-type": A.Type()}
    for nm, t in list(ok.items()) + list(bad.items()):
        raises_iff(E, "elem:" + nm, lambda: A.Array(element_type=t, cap=3, **TOK), ER.UnsupportedArrayType,
                   z3.BoolVal(nm in bad))


@astproof("py:_ast.MessageField.validate_post_freeze", "MessageField.validate_post_freeze", ["C08"],
          must=["number/accepted-only-if-valid", "number/rejected-only-if-invalid"])
def _mf(E, A):
    """raises InvalidMessageFieldNumber  <=>  not (1 <= number <= 255)"""
    import bitproto.errors as ER
    n = sym(E, "number")
    raises_iff(E, "number", lambda: A.MessageField(name="f", type=A.Bool(), number=SymInt(n), **TOK),
               ER.InvalidMessageFieldNumber, z3.Not(z3.And(n >= 1, n <= 255)))


@astproof("py:_ast.EnumField.validate_post_freeze", "EnumField.validate_post_freeze", ["C08"],
          must=["value/accepted-only-if-valid", "value/rejected-only-if-invalid"])
def _ef(E, A):
    """raises InvalidEnumFieldValue  <=>  value < 0"""
    import bitproto.errors as ER
    v = sym(E, "value")
    raises_iff(E, "value", lambda: A.EnumField(name="F", value=SymInt(v), **TOK), ER.InvalidEnumFieldValue, v < 0)


@astproof("py:_ast.Enum.validate_enum_field_on_push", "Enum.validate_enum_field_on_push", ["C08"],
          must=["overflow-or-duplicate/"])
def _enum_push(E, A):
    """raises EnumFieldValueOverflow <=> value >= 2^nbits ; otherwise DuplicatedEnumFieldValue <=> value already present"""
    import bitproto.errors as ER
    v, n = E.fresh("value"), E.fresh("nbits")
    E.assume(z3.And(v >= 0, v < (1 << 70), n >= 1, n <= 64))
    proto = A.Proto(name="p")
    en = A.Enum(name="E", type=A.Uint(cap=SymInt(n)), _bound=proto)
    # existing members 0 and 5 (pushed through the real push_member, which itself validates them)
    E.assume(n >= 3)
    en.push_member(A.EnumField(name="Z", value=0))
    en.push_member(A.EnumField(name="F", value=5))
    f = A.EnumField(name="NEW", value=SymInt(v), **TOK)
    overflow = v >= pow2(n)
    dup = z3.Or(v == 0, v == 5)
    try:
        en.push_member(f)
        raised = None
    except ER.ParserError as e:
        raised = e
    if raised is None:
        E.oblige("overflow-or-duplicate/accepted-only-if-valid", z3.Not(z3.Or(overflow, dup)))
        E.oblige("overflow-or-duplicate/pushed", z3.BoolVal(en.members.get("NEW") is f))
    elif type(raised) is ER.EnumFieldValueOverflow:
        E.oblige("overflow-or-duplicate/overflow-only-if", overflow)
    elif type(raised) is ER.DuplicatedEnumFieldValue:
        E.oblige("overflow-or-duplicate/duplicate-only-if", z3.And(z3.Not(overflow), dup))
    else:
        E.oblige("overflow-or-duplicate/error-class", False)
    if raised is not None:
        E.oblige("overflow-or-duplicate/error-cites-node",
                 z3.BoolVal(raised.filepath == TOK["filepath"] and raised.lineno == TOK["lineno"]))
        E.oblige("overflow-or-duplicate/not-pushed", z3.BoolVal("NEW" not in en.members))


@astproof("py:_ast.Message.validate_message_field_on_push", "Message.validate_message_field_on_push", ["C08"],
          must=["dup/"])
def _msg_push(E, A):
    """raises DuplicatedMessageFieldNumber  <=>  the number is already used in this message"""
    import bitproto.errors as ER
    n = E.fresh("number")
    E.assume(z3.And(n >= 1, n <= 255))
    proto = A.Proto(name="p")
    m = A.Message(name="M", _bound=proto)
    m.push_member(A.MessageField(name="a", type=A.Bool(), number=1))
    m.push_member(A.MessageField(name="b", type=A.Bool(), number=200))
    f = A.MessageField(name="c", type=A.Bool(), number=SymInt(n), **TOK)
    r = raises_iff(E, "dup", lambda: m.push_member(f), ER.DuplicatedMessageFieldNumber, z3.Or(n == 1, n == 200))
    E.oblige("dup/pushed-iff-accepted", z3.BoolVal(("c" in m.members) == (r is None)))


@astproof("py:_ast.Scope.push_member", "Scope.push_member", ["C08", "C11"], must=["name/"])
def _push(E, A):
    """raises DuplicatedDefinition <=> the name is already a member of this scope; otherwise the member is stored under
    its name (or the explicit name); a frozen scope refuses pushes"""
    import bitproto.errors as ER
    proto = A.Proto(name="p")
    m = A.Message(name="M", _bound=proto)
    a = A.Alias(name="A", type=A.Bool(), _bound=proto)
    m.push_member(a)
    for new, dup in (("A", True), ("a", False), ("B", False)):
        d = A.Alias(name=new, type=A.Bool(), _bound=proto, **TOK)
        r = raises_iff(E, "name/%s" % new, lambda: m.push_member(d), ER.DuplicatedDefinition, z3.BoolVal(dup))
        E.oblige("name/%s/stored" % new, z3.BoolVal((m.members.get(new) is d) == (not dup)))
    d2 = A.Alias(name="X", type=A.Bool(), _bound=proto, **TOK)
    raises_iff(E, "name/explicit-dup", lambda: m.push_member(d2, name="A"), ER.DuplicatedDefinition, z3.BoolVal(True))
    m.push_member(d2, name="Y")
    E.oblige("name/explicit/stored", z3.BoolVal(m.members.get("Y") is d2 and "X" not in m.members))
    E.oblige("name/order", z3.BoolVal(list(m.members.keys()) == ["A", "a", "B", "Y"]))


@astproof("py:_ast.Message.validate_post_freeze", "Message.validate_post_freeze", ["C08", "C05"],     # C05: the size fits the 16-bit prefix
          must=["size/accepted-only-if-valid", "size/rejected-only-if-invalid"],
          calls=["Message.nbits", "Type.nbytes", "ScopeWithOptions.get_option_as_int_or_raise"])
def _msg_size(E, A):
    """raises MessageSizeOverflows  <=>  nbits > 65535  or  (max_bytes > 0 and ceil(nbits/8) > max_bytes)"""
    import bitproto.errors as ER
    nb, mb = E.fresh("nbits"), E.fresh("max_bytes")
    E.assume(z3.And(nb >= 0, nb < (1 << 50), mb >= 0, mb < (1 << 50)))
    proto = A.Proto(name="p")
    m = A.Message(name="M", _bound=proto, **TOK)
    saved = (A.Message.nbits, A.Message.nbytes, A.Message.get_option_as_int_or_raise)
    opts = []
    A.Message.nbits = lambda self: SymInt(nb)
    A.Message.nbytes = lambda self: wrap(z3.UDiv(nb + 7, bv(8)))        # contract of Type.nbytes (proved below)
    A.Message.get_option_as_int_or_raise = lambda self, name: (opts.append(name), SymInt(mb))[1]
    try:
        raises_iff(E, "size", lambda: m.freeze(), ER.MessageSizeOverflows,
                   z3.Or(nb > 65535, z3.And(mb > 0, z3.UDiv(nb + 7, bv(8)) > mb)))
    finally:
        A.Message.nbits, A.Message.nbytes, A.Message.get_option_as_int_or_raise = saved
    E.oblige("size/option-name", z3.BoolVal(all(o == "max_bytes" for o in opts)))


@astproof("py:_ast.Alias.validate_type", "Alias.validate_type", ["C08"], must=["target:"])
def _alias(E, A):
    """raises InvalidAliasedType  <=>  the target already has a name (enum / message / alias)"""
    import bitproto.errors as ER
    proto = A.Proto(name="p")
    named = {"enum": A.Enum(name="E", type=A.Uint(cap=3), _bound=proto), "message": A.Message(name="M", _bound=proto),
             "alias": A.Alias(name="T", type=A.Uint(cap=3), _bound=proto)}
    unnamed = {"bool": A.Bool(), "byte": A.Byte(), "int": A.Int(cap=9), "uint": A.Uint(cap=64),
               "array": A.Array(element_type=A.Byte(), cap=4)}
    for nm, t in list(named.items()) + list(unnamed.items()):
        raises_iff(E, "target:" + nm, lambda: A.Alias(name="N", type=t, _bound=proto, **TOK), ER.InvalidAliasedType,
                   z3.BoolVal(nm in named))


@astproof("py:_ast.ScopeWithOptions.validate_option_on_push", "ScopeWithOptions.validate_option_on_push", ["C08"],
          must=["option:"])
def _opt_push(E, A):
    """unknown option name -> UnsupportedOption; wrong value class -> InvalidOptionValue; validator false -> InvalidOptionValue"""
    import bitproto.errors as ER
    proto = A.Proto(name="p")
    m = A.Message(name="M", _bound=proto)
    v = sym(E, "v")
    # max_bytes: integer option, validator v >= 0
    raises_iff(E, "option:max_bytes", lambda: m.validate_option_on_push(A.IntegerOption(name="max_bytes", value=SymInt(v), **TOK)),
               ER.InvalidOptionValue, v < 0)
    raises_iff(E, "option:unknown", lambda: m.validate_option_on_push(A.IntegerOption(name="max_byte", value=3, **TOK)),
               ER.UnsupportedOption, z3.BoolVal(True))
    raises_iff(E, "option:wrong-class", lambda: m.validate_option_on_push(A.StringOption(name="max_bytes", value="3", **TOK)),
               ER.InvalidOptionValue, z3.BoolVal(True))
    raises_iff(E, "option:proto-option-in-message", lambda: m.validate_option_on_push(A.StringOption(name="c.name_prefix", value="x", **TOK)),
               ER.UnsupportedOption, z3.BoolVal(True))
    # proto options
    w = sym(E, "w")
    raises_iff(E, "option:c.struct_packing_alignment",
               lambda: proto.validate_option_on_push(A.IntegerOption(name="c.struct_packing_alignment", value=SymInt(w), **TOK)),
               ER.InvalidOptionValue, z3.Not(z3.And(w >= 0, w <= 8)))
    for nm in ("c.name_prefix", "go.package_path", "py.module_name"):
        raises_iff(E, "option:" + nm, lambda: proto.validate_option_on_push(A.StringOption(name=nm, value="x", **TOK)),
                   ER.InvalidOptionValue, z3.BoolVal(False))
        raises_iff(E, "option:%s/int" % nm, lambda: proto.validate_option_on_push(A.IntegerOption(name=nm, value=1, **TOK)),
                   ER.InvalidOptionValue, z3.BoolVal(True))
    raises_iff(E, "option:message-option-in-proto", lambda: proto.validate_option_on_push(A.IntegerOption(name="max_bytes", value=1, **TOK)),
               ER.UnsupportedOption, z3.BoolVal(True))


# ----------------------------------------------------------------------------- size arithmetic (C01, C07)
@astproof("py:_ast.Type.nbytes", "Type.nbytes", ["C01", "C07", "C08"], must=["post:ceil"])
def _nbytes(E, A):
    """0 <= nbits < 2^53  ==>  nbytes() = ceil(nbits / 8)"""
    nb = E.fresh("nbits")
    E.assume(z3.And(nb >= 0, nb < (1 << 53)))

    class T(A.Type):
        def nbits(self):
            return SymInt(nb)
    r = T().nbytes()
    E.oblige("post:ceil", z3.And(lift(r) * 8 >= nb, lift(r) * 8 < nb + 8))


@astproof("py:_ast.Array.nbits", "Array.nbits", ["C01", "C07"], must=["post:nbits"])
def _arr_nbits(E, A):
    """nbits = cap * nbits(element) + 16 if extensible"""
    cap, w = E.fresh("cap"), E.fresh("w")
    E.assume(z3.And(cap >= 1, cap <= 65535, w >= 0, w < (1 << 40)))

    class T(A.Type):
        def nbits(self):
            return SymInt(w)
    for ext in (False, True):
        saved = A.Array.validate_array_element_type
        A.Array.validate_array_element_type = lambda self: None
        try:
            a = A.Array(element_type=T(), cap=SymInt(cap), extensible=ext)
        finally:
            A.Array.validate_array_element_type = saved
        E.oblige("post:nbits[%s]" % ("ext" if ext else "fixed"), lift(a.nbits()) == cap * w + (16 if ext else 0))


@astproof("py:_ast.Message.nbits", "Message.nbits", ["C01", "C07", "C12"], must=["post:nbits", "post:sorted"],
          assumes=["builtins sum / sorted (external): sum adds the elements left to right, sorted returns a stable ascending permutation"])
def _msg_nbits(E, A):
    """nbits = sum of the fields' type sizes (+16 if extensible), independent of declaration order and names;
    sorted_fields() is the same fields ascending by number"""
    ws = [E.fresh("w%d" % k) for k in range(3)]
    for w in ws:
        E.assume(z3.And(w >= 0, w < (1 << 40)))

    def mkT(w):
        class T(A.Type):
            def nbits(self):
                return SymInt(w)
        return T()
    proto = A.Proto(name="p")
    for ext in (False, True):
        for order in ((0, 1, 2), (2, 0, 1)):
            m = A.Message(name="M", _bound=proto, extensible=ext)
            nums = {0: 7, 1: 3, 2: 200}
            for k in order:
                m.push_member(A.MessageField(name="f%d" % k, type=mkT(ws[k]), number=nums[k], _bound=proto))
            E.oblige("post:nbits[%s,%s]" % ("ext" if ext else "fixed", order),
                     lift(m.nbits()) == ws[0] + ws[1] + ws[2] + (16 if ext else 0))
            E.oblige("post:sorted[%s]" % (order,), z3.BoolVal([f.number for f in m.sorted_fields()] == [3, 7, 200]
                                                             and [f.name for f in m.fields()] == ["f%d" % k for k in order]))
    e = A.Message(name="Empty", _bound=proto)
    E.oblige("post:nbits[empty]", z3.BoolVal(e.nbits() == 0 and e.nbytes() == 0))


@astproof("py:_ast.Alias.nbits", "Alias.nbits", ["C01", "C12"], must=["post:transparent"])
def _alias_nbits(E, A):
    """an alias / enum is exactly as wide as the type it names"""
    w = E.fresh("w")
    E.assume(z3.And(w >= 1, w <= 64))
    proto = A.Proto(name="p")
    a = A.Alias(name="T", type=A.Uint(cap=SymInt(w)), _bound=proto)
    E.oblige("post:transparent", lift(a.nbits()) == w)
    en = A.Enum(name="E", type=A.Uint(cap=SymInt(w)), _bound=proto)
    E.oblige("post:transparent[enum]", lift(en.nbits()) == w)
    E.oblige("post:leaf-widths", z3.BoolVal(A.Bool().nbits() == 1 and A.Byte().nbits() == 8))
    i = A.Int(cap=SymInt(w))
    E.oblige("post:int", lift(i.nbits()) == w)


# ----------------------------------------------------------------------------- option validators
@astproof("py:options.validators", "MESSAGE_OPTIONS", ["C08"], file=OPT, must=["validator:"])
def _optvals(E, A):
    """max_bytes valid <=> v >= 0 ; c.struct_packing_alignment valid <=> 0 <= v <= 8 ; the three string options have no validator"""
    import bitproto.options as O
    v = sym(E, "v")
    d = {x.name: x for x in O.MESSAGE_OPTIONS + O.PROTO_OPTTIONS}
    E.oblige("validator:names", z3.BoolVal(sorted(d) == ["c.name_prefix", "c.struct_packing_alignment", "go.package_path",
                                                        "max_bytes", "py.module_name"]))
    r = d["max_bytes"].validator(SymInt(v))
    E.oblige("validator:max_bytes", lift_bool(r) == (v >= 0))
    r = d["c.struct_packing_alignment"].validator(SymInt(v))
    E.oblige("validator:c.struct_packing_alignment", lift_bool(r) == z3.And(v >= 0, v <= 8))
    E.oblige("validator:defaults", z3.BoolVal(d["max_bytes"].default == 0 and d["c.struct_packing_alignment"].default == 0
                                              and all(d[k].validator is None and d[k].default == "" for k in
                                                      ("c.name_prefix", "go.package_path", "py.module_name"))))


@astproof("py:_ast.ScopeWithOptions.options", "ScopeWithOptions.options", ["C08"], must=["post:"])
def _own_options(E, A):
    """a scope's options are exactly the options declared in THAT scope (declaration order), whatever options the scopes nested in it
    declare - before or after, at any depth; option(name) / get_option_as_int_or_raise(name) read those and fall back to the default"""
    proto = A.Proto(name="p")
    mk = lambda v: A.IntegerOption(name="max_bytes", value=v, _bound=proto)
    # own option declared BEFORE a nested message that has its own
    outer, inner, deep = A.Message(name="Outer", _bound=proto), A.Message(name="Inner", _bound=proto), A.Message(name="Deep", _bound=proto)
    o9, o5, o2 = mk(9), mk(5), mk(2)
    deep.push_member(o2)
    inner.push_member(o5)
    inner.push_member(deep)
    outer.push_member(o9)
    outer.push_member(inner)
    E.oblige("post:own-option-before-nested", z3.BoolVal([o for _, o in outer.options()] == [o9]
                                                         and outer.get_option_as_int_or_raise("max_bytes") == 9
                                                         and [o for _, o in inner.options()] == [o5]
                                                         and inner.get_option_as_int_or_raise("max_bytes") == 5
                                                         and deep.get_option_as_int_or_raise("max_bytes") == 2))
    # no own option, nested message has one
    outer2, inner2 = A.Message(name="Outer2", _bound=proto), A.Message(name="Inner2", _bound=proto)
    inner2.push_member(mk(3))
    outer2.push_member(inner2)
    E.oblige("post:no-own-option", z3.BoolVal(outer2.options() == [] and outer2.get_option_as_int_or_raise("max_bytes") == 0))
    # own option declared AFTER the nested message
    outer3, inner3 = A.Message(name="Outer3", _bound=proto), A.Message(name="Inner3", _bound=proto)
    inner3.push_member(mk(4))
    outer3.push_member(inner3)
    o7 = mk(7)
    outer3.push_member(o7)
    E.oblige("post:own-option-after-nested", z3.BoolVal([o for _, o in outer3.options()] == [o7]
                                                        and outer3.get_option_as_int_or_raise("max_bytes") == 7))
    # proto level: the proto's own options only
    m = A.Message(name="M", _bound=proto)
    m.push_member(mk(6))
    proto.push_member(m)
    E.oblige("post:proto-level", z3.BoolVal(all(not isinstance(o, A.IntegerOption) or o.name != "max_bytes" for _, o in proto.options())))


@astproof("py:_ast.Scope.get_name_by_member", "Scope.get_name_by_member", ["C11"], must=["post:"])
def _name_by_member(E, A):
    """the name under which THAT object is declared in the scope (an import's `as` name), also when another member is declared under
    the object's own name; None for an object that is not a member"""
    proto = A.Proto(name="main")
    a = A.Proto(name="shared", filepath="shared_v1.bitproto")
    b = A.Proto(name="shared", filepath="shared.bitproto")
    m = A.Message(name="M", _bound=proto)
    proto.push_member(a, "old")
    proto.push_member(b)
    proto.push_member(m)
    stranger = A.Message(name="M", _bound=proto)
    E.oblige("post:as-name-wins-over-own-name", z3.BoolVal(proto.get_name_by_member(a) == "old"))
    E.oblige("post:plain", z3.BoolVal(proto.get_name_by_member(b) == "shared" and proto.get_name_by_member(m) == "M"))
    E.oblige("post:not-a-member", z3.BoolVal(proto.get_name_by_member(stranger) is None))
