"""Side-car contracts for /repo/lib/c/bitproto.c, proved for ALL inputs by csym's generic mode over clang's typed AST
(default AST = little-endian bodies; -DBP_BIG_ENDIAN AST = big-endian bodies under a big-endian memory model)."""
from __future__ import annotations

import traceback
from typing import Callable, List

import z3

from ..core.registry import ProofDef, ProofResult, register
from ..csym import generic as G
from ..csym import genc, interp as CI
from ..csym.ctypes_ import TInt, TPtr, TStruct
from ..csym.generic import GInterp, SymRegion, LoopCut, OW
from ..csym.interp import Ptr, LV, Region
from ..pysym import engine as EN
from ..pysym import loader

SRC = "lib/c/bitproto.c"
I32 = TInt(32, True)


def cproof(pid, func, props, big=False, must=None, calls=None, assumes=None):
    def deco(body: Callable):
        def run(concrete=None) -> ProofResult:
            res = ProofResult(pid=pid, obls=[])
            E = None
            try:
                prog = CI.Program()
                prog.add_ast(genc.runtime_ast(big), SRC)
                if func not in prog.funcs:
                    res.error = "target not found: %s (%s AST)" % (func, "BP_BIG_ENDIAN" if big else "default")
                    return res
                import hashlib
                import json as _json
                res.sha = hashlib.sha256(_json.dumps(_strip(prog.funcs[func]), sort_keys=True).encode()).hexdigest()[:16]
                res.line = prog.funcs[func].get("loc", {}).get("line", 0) or 0
                E = EN.Engine(pid, func, "%s (%s)" % (SRC, "-DBP_BIG_ENDIAN" if big else "default"), props)
                E.concrete = concrete
                E.cover_qf = True
                E.keep_terms = True

                def one():
                    it = GInterp(prog, big=big)
                    it.frames.append({})
                    body(E, it)
                E.explore(one)
                res.obls, res.paths = E.obls, E.completed_paths
                missing = [m for m in (must or []) if not any(l.startswith(m) for l in E.labels_seen)]
                if missing:
                    res.error = "labels never generated (vacuous proof?): %r" % missing
                if not E.obls:
                    res.error = "no obligations generated"
            except CI.CUnsupported as e:
                res.error = "unsupported C construct: %s" % (e,)
                if E is not None:
                    res.obls = E.obls
            except Exception as e:
                res.error = "engine exception: %r\n%s" % (e, traceback.format_exc(limit=-8))
            return res
        register(ProofDef(pid=pid, func=func, file=SRC, props=props, run=run, must_labels=must or [],
                          doc=(body.__doc__ or ""), calls=calls or [], assumes=assumes or []))
        return body
    return deco


def _strip(n):
    """AST of a function without ids / locations (stable hash of the analysed code)"""
    if isinstance(n, dict):
        return {k: _strip(v) for k, v in n.items() if k not in ("id", "loc", "range", "referencedMemberDecl", "previousDecl")
                and not (k == "referencedDecl")} | ({"ref": n["referencedDecl"].get("name")} if "referencedDecl" in n else {})
    if isinstance(n, list):
        return [_strip(x) for x in n]
    return n


def bv32(x):
    return z3.BitVecVal(x, 32)


def bit(mem, a):
    """stream bit a of a byte array: bit (a mod 8) of byte (a div 8); BV1"""
    return z3.Extract(0, 0, z3.LShR(z3.Select(mem, z3.LShR(a, 3)), z3.Extract(7, 0, a & 7)))


# ----------------------------------------------------------------------------- pure helpers
def _pure(name, nargs, spec, big=False, pre=None, props=("C03", "C14")):
    @cproof("c[%s]:%s" % ("be" if big else "le", name), name, list(props), big=big, must=["post:result"])
    def _p(E, it):
        xs = [E.fresh("a%d" % k, z3.BitVecSort(32)) for k in range(nargs)]
        if pre is not None:
            E.assume(pre(*xs))
        E.cover("requires")
        r = it.call_func(name, list(xs))
        rt = r if z3.is_expr(r) else z3.BitVecVal(r, 32 if not isinstance(r, bool) else 8)
        want = spec(*xs)
        if rt.size() != want.size():
            rt = z3.ZeroExt(want.size() - rt.size(), rt) if rt.size() < want.size() else z3.Extract(want.size() - 1, 0, rt)
        E.oblige("post:result", rt == want)
    return _p


_pure("BpMin", 2, lambda a, b: z3.If(a < b, a, b))
_pure("BpMinTriple", 3, lambda a, b, c: z3.If(z3.If(a < b, a, b) < c, z3.If(a < b, a, b), c))
_pure("BpIsNbitsStandard", 1, lambda n: z3.If(z3.Or(n == 8, n == 16, n == 32, n == 64), bv32(1), bv32(0)))
_pure("BpIsBaseIntegerType", 1, lambda f: z3.If(z3.Or(f == 4, f == 3, f == 5, f == 2), bv32(1), bv32(0)))
_pure("BpBaseTypeStorageSize", 1, lambda n: z3.If(n <= 8, bv32(1), z3.If(n <= 16, bv32(2), z3.If(n <= 32, bv32(4), bv32(8)))),
      big=True, pre=lambda n: z3.And(n >= 1, n <= 64), props=("C06", "C14"))


# ----------------------------------------------------------------------------- BpCopyBufferBits
LIM = 1 << 24


def _state(st, it):
    n = it.get_local("n", I32)
    di, si = it.get_local("di", I32), it.get_local("si", I32)
    dp = it.load(LV(it.local("dst"), 0, TPtr(TInt(8, False))))
    sp = it.load(LV(it.local("src"), 0, TPtr(TInt(8, False))))
    n, di, si = [x if z3.is_expr(x) else bv32(x) for x in (n, di, si)]
    return n, di, si, G.o32(dp.off), G.o32(sp.off)


def copy_hints(st):
    def hints(it):
        n, di, si, doff, soff = _state(st, it)
        t = st.N0 - n
        return [("dst-byte", z3.And(z3.LShR(st.D0 + t, 3) == doff + z3.LShR(di, 3), ((st.D0 + t) & 7) == (di & 7))),
                ("src-byte", z3.And(z3.LShR(st.S0 + t, 3) == soff + z3.LShR(si, 3), ((st.S0 + t) & 7) == (si & 7)))]
    return hints


class CopySetup:
    def __init__(self, E, it):
        self.E, self.it = E, it
        f = lambda nm: E.fresh(nm, z3.BitVecSort(32))
        self.N0, self.d0, self.s0, self.di0, self.si0 = f("n"), f("dst_off"), f("src_off"), f("di"), f("si")
        self.dst = SymRegion("dst")
        self.src = SymRegion("src", writable=False)
        self.D_arr0, self.S_arr0 = self.dst.arr, self.src.arr
        self.D0 = (self.d0 << 3) + self.di0
        self.S0 = (self.s0 << 3) + self.si0
        self.Eend = ((self.D0 + self.N0 + 7) >> 3) << 3          # end of the last touched destination byte, in bits

    def pre(self):
        k = z3.BitVec("k", 32)
        N0, d0, s0, di0, si0 = self.N0, self.d0, self.s0, self.di0, self.si0
        return [
            z3.And(N0 >= 0, N0 < LIM, d0 >= 0, d0 < LIM, s0 >= 0, s0 < LIM, di0 >= 0, di0 < LIM, si0 >= 0, si0 < LIM),
            # destination bits [D0, E) are zero (fresh output buffer / zeroed struct: the API's precondition)
            z3.ForAll([k], z3.Implies(z3.And(k >= self.D0, k < self.Eend), bit(self.D_arr0, k) == 0)),
            # both objects contain the bytes that hold the two bit ranges
            z3.And(self.dst.size >= 0, self.dst.size < (1 << 26), (self.Eend >> 3) <= self.dst.size),
            z3.And(self.src.size >= 0, self.src.size < (1 << 26), ((self.S0 + N0 + 7) >> 3) <= self.src.size),
        ]

    def inv(self, it):
        n = it.get_local("n", I32)
        di, si = it.get_local("di", I32), it.get_local("si", I32)
        dp = it.load(LV(it.local("dst"), 0, TPtr(TInt(8, False))))
        sp = it.load(LV(it.local("src"), 0, TPtr(TInt(8, False))))
        doff, soff = G.o32(dp.off), G.o32(sp.off)
        n, di, si = [x if z3.is_expr(x) else bv32(x) for x in (n, di, si)]
        t = self.N0 - n
        k = z3.BitVec("k", 32)
        mem = self.dst.arr
        return [
            ("pointers", z3.BoolVal(dp.region is self.dst and sp.region is self.src)),
            ("range", z3.And(n >= 0, n <= self.N0, di >= 0, di < LIM + 16, si >= 0, si < LIM + 16, doff >= 0, soff >= 0,
                             doff < 2 * LIM, soff < 2 * LIM)),
            ("position", z3.And((doff << 3) + di == self.D0 + t, (soff << 3) + si == self.S0 + t)),
            ("content", z3.ForAll([k], z3.Implies(z3.And(k >= 0, k < t), bit(mem, self.D0 + k) == bit(self.S_arr0, self.S0 + k)))),
            ("rest-zero", z3.ForAll([k], z3.Implies(z3.And(k >= self.D0 + t, k < self.Eend), bit(mem, k) == 0))),
            ("frame-bytes", z3.ForAll([k], z3.Implies(z3.And(k >= 0, z3.Or(k < (self.D0 >> 3), k >= (self.Eend >> 3))),
                                                      z3.Select(mem, k) == z3.Select(self.D_arr0, k)))),
            ("frame-low-bits", z3.ForAll([k], z3.Implies(z3.And(k >= ((self.D0 >> 3) << 3), k < self.D0),
                                                         bit(mem, k) == bit(self.D_arr0, k)))),
            ("source-untouched", z3.BoolVal(self.src.writes == 0)),
        ]


@cproof("c[le]:BpCopyBufferBits", "BpCopyBufferBits", ["C03", "C07", "C14"],
        must=["BpCopyBufferBits#1/inv-preserve#content", "BpCopyBufferBits#1/inv-preserve#frame-bytes", "post:content", "post:frame"])
def _copy_le(E, it):
    """n >= 0 bits (UNBOUNDED: the batch array path included) from source bit S0 to destination bit D0, destination bits zero on
    entry: on exit destination bits [D0, D0+n) equal source bits [S0, S0+n), the rest of the last byte stays zero, every byte
    outside [D0 div 8, ceil((D0+n)/8)) and the bits below D0 in the first byte are unchanged, the source is not written, every
    access lies inside the two objects (u32 / u16 / u8 / partial / unaligned paths), no undefined behaviour, n decreases"""
    _copy(E, it)


@cproof("c[be]:BpCopyBufferBits", "BpCopyBufferBits", ["C06", "C14"], big=True,
        must=["BpCopyBufferBits#1/inv-preserve#content", "post:content", "post:frame"])
def _copy_be(E, it):
    """the same contract for the body compiled with BP_BIG_ENDIAN (only the endian-neutral single-byte paths remain)"""
    _copy(E, it)


def _copy(E, it):
    st = CopySetup(E, it)
    for c in st.pre():
        E.assume(c)
    E.cover("requires")
    it._local_types = {"n": I32, "di": I32, "si": I32, "dst": ("ptr", st.dst), "src": ("ptr", st.src)}
    cut = LoopCut(
        inv=st.inv, variant=lambda I: (lambda n: n if z3.is_expr(n) else bv32(n))(I.get_local("n", I32)),
        havoc_locals=["n", "di", "si", "dst", "src"], havoc_regions=[st.dst], hints=copy_hints(st))
    cut.snapshot = lambda I: st.N0 - _state(st, I)[0]              # t at the loop head
    # bits copied by earlier iterations / bits of this iteration and beyond (the quantified variable is a bit INDEX k in
    # `content`, an absolute POSITION in the other conjuncts: both splits are on the same boundary)
    cut.cases = lambda I, t_old: [("before-this-chunk", lambda k: z3.And(k < t_old, k < st.D0 + t_old) if False else k < t_old),
                                  ("this-chunk-and-after", lambda k: k >= t_old)]
    cut.instance_terms = lambda I, t_old, k: [st.D0 + k]        # `content` speaks of bit index k, `rest-zero` of position D0 + k
    it.loop_cuts[("BpCopyBufferBits", 1)] = cut
    frame_holder = {}
    # run with access to the callee's frame on exit: wrap call_func to keep the frame alive for the postcondition
    orig = it.frames

    class Keep(list):
        def pop(self_, *a):
            frame_holder["f"] = self_[-1]
            return list.pop(self_, *a)
    it.frames = Keep(it.frames)
    it.call_func("BpCopyBufferBits", [st.N0, Ptr(st.dst, st.d0), Ptr(st.src, st.s0), st.di0, st.si0])
    k = z3.BitVec("k", 32)
    mem = st.dst.arr
    E.oblige("post:content", z3.Implies(z3.And(k >= 0, k < st.N0), bit(mem, st.D0 + k) == bit(st.S_arr0, st.S0 + k)))
    E.oblige("post:rest-zero", z3.Implies(z3.And(k >= st.D0 + st.N0, k < st.Eend), bit(mem, k) == 0))
    E.oblige("post:frame", z3.And(
        z3.Implies(z3.And(k >= 0, z3.Or(k < (st.D0 >> 3), k >= (st.Eend >> 3))), z3.Select(mem, k) == z3.Select(st.D_arr0, k)),
        z3.Implies(z3.And(k >= ((st.D0 >> 3) << 3), k < st.D0), bit(mem, k) == bit(st.D_arr0, k))), kind="frame")
    E.oblige("post:source-untouched", z3.BoolVal(st.src.writes == 0), kind="frame")
