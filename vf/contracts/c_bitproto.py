"""Side-car contracts for /repo/lib/c/bitproto.c, proved for ALL inputs by csym's generic mode over clang's typed AST
(default AST = little-endian bodies; -DBP_BIG_ENDIAN AST = big-endian bodies under a big-endian memory model)."""
from __future__ import annotations

import traceback
from typing import Callable, List

import z3

from ..core.registry import ProofDef, ProofResult, register
from ..csym import generic as G
from ..csym import genc, interp as CI
from ..csym.ctypes_ import TInt, TPtr, TStruct
from ..csym.generic import GInterp, SymRegion, LoopCut, OW
from ..csym.interp import Ptr, LV, Region
from ..pysym import engine as EN
from ..pysym import loader

SRC = "lib/c/bitproto.c"
I32 = TInt(32, True)


def cproof(pid, func, props, big=False, must=None, calls=None, assumes=None):
    def deco(body: Callable):
        def run(concrete=None) -> ProofResult:
            res = ProofResult(pid=pid, obls=[])
            E = None
            try:
                prog = CI.Program()
                prog.add_ast(genc.runtime_ast(big), SRC)
                if func not in prog.funcs:
                    res.error = "target not found: %s (%s AST)" % (func, "BP_BIG_ENDIAN" if big else "default")
                    return res
                import hashlib
                import json as _json
                res.sha = hashlib.sha256(_json.dumps(_strip(prog.funcs[func]), sort_keys=True).encode()).hexdigest()[:16]
                res.line = prog.funcs[func].get("loc", {}).get("line", 0) or 0
                E = EN.Engine(pid, func, "%s (%s)" % (SRC, "-DBP_BIG_ENDIAN" if big else "default"), props)
                E.concrete = concrete
                E.cover_qf = True
                E.keep_terms = True

                def one():
                    it = GInterp(prog, big=big)
                    it.frames.append({})
                    body(E, it)
                E.explore(one)
                res.obls, res.paths = E.obls, E.completed_paths
                missing = [m for m in (must or []) if not any(l.startswith(m) for l in E.labels_seen)]
                if missing:
                    res.error = "labels never generated (vacuous proof?): %r" % missing
                if not E.obls:
                    res.error = "no obligations generated"
            except CI.CUnsupported as e:
                res.error = "unsupported C construct: %s" % (e,)
                if E is not None:
                    res.obls = E.obls
            except Exception as e:
                res.error = "engine exception: %r\n%s" % (e, traceback.format_exc(limit=-8))
            return res
        register(ProofDef(pid=pid, func=func, file=SRC, props=props, run=run, must_labels=must or [],
                          doc=(body.__doc__ or ""), calls=calls or [], assumes=assumes or []))
        return body
    return deco


def _strip(n):
    """AST of a function without ids / locations (stable hash of the analysed code)"""
    if isinstance(n, dict):
        return {k: _strip(v) for k, v in n.items() if k not in ("id", "loc", "range", "referencedMemberDecl", "previousDecl")
                and not (k == "referencedDecl")} | ({"ref": n["referencedDecl"].get("name")} if "referencedDecl" in n else {})
    if isinstance(n, list):
        return [_strip(x) for x in n]
    return n


def bv32(x):
    return z3.BitVecVal(x, 32)


def bit(mem, a):
    """stream bit a of a byte array: bit (a mod 8) of byte (a div 8); BV1"""
    return z3.Extract(0, 0, z3.LShR(z3.Select(mem, z3.LShR(a, 3)), z3.Extract(7, 0, a & 7)))


# ----------------------------------------------------------------------------- pure helpers
def _pure(name, nargs, spec, big=False, pre=None, props=("C03", "C14")):
    @cproof("c[%s]:%s" % ("be" if big else "le", name), name, list(props), big=big, must=["post:result"])
    def _p(E, it):
        xs = [E.fresh("a%d" % k, z3.BitVecSort(32)) for k in range(nargs)]
        if pre is not None:
            E.assume(pre(*xs))
        E.cover("requires")
        r = it.call_func(name, list(xs))
        rt = r if z3.is_expr(r) else z3.BitVecVal(r, 32 if not isinstance(r, bool) else 8)
        want = spec(*xs)
        if rt.size() != want.size():
            rt = z3.ZeroExt(want.size() - rt.size(), rt) if rt.size() < want.size() else z3.Extract(want.size() - 1, 0, rt)
        E.oblige("post:result", rt == want)
    return _p


_pure("BpMin", 2, lambda a, b: z3.If(a < b, a, b))
_pure("BpMinTriple", 3, lambda a, b, c: z3.If(z3.If(a < b, a, b) < c, z3.If(a < b, a, b), c))
_pure("BpIsNbitsStandard", 1, lambda n: z3.If(z3.Or(n == 8, n == 16, n == 32, n == 64), bv32(1), bv32(0)))
_pure("BpIsBaseIntegerType", 1, lambda f: z3.If(z3.Or(f == 4, f == 3, f == 5, f == 2), bv32(1), bv32(0)))
_pure("BpBaseTypeStorageSize", 1, lambda n: z3.If(n <= 8, bv32(1), z3.If(n <= 16, bv32(2), z3.If(n <= 32, bv32(4), bv32(8)))),
      big=True, pre=lambda n: z3.And(n >= 1, n <= 64), props=("C06", "C14"))


# ----------------------------------------------------------------------------- BpCopyBufferBits
LIM = 1 << 24


def _state(st, it):
    n = it.get_local("n", I32)
    di, si = it.get_local("di", I32), it.get_local("si", I32)
    dp = it.load(LV(it.local("dst"), 0, TPtr(TInt(8, False))))
    sp = it.load(LV(it.local("src"), 0, TPtr(TInt(8, False))))
    n, di, si = [x if z3.is_expr(x) else bv32(x) for x in (n, di, si)]
    return n, di, si, G.o32(dp.off), G.o32(sp.off)


def copy_hints(st):
    def hints(it):
        n, di, si, doff, soff = _state(st, it)
        t = st.N0 - n
        return [("dst-byte", z3.And(z3.LShR(st.D0 + t, 3) == doff + z3.LShR(di, 3), ((st.D0 + t) & 7) == (di & 7))),
                ("src-byte", z3.And(z3.LShR(st.S0 + t, 3) == soff + z3.LShR(si, 3), ((st.S0 + t) & 7) == (si & 7)))]
    return hints


class CopySetup:
    def __init__(self, E, it):
        self.E, self.it = E, it
        f = lambda nm: E.fresh(nm, z3.BitVecSort(32))
        self.N0, self.d0, self.s0, self.di0, self.si0 = f("n"), f("dst_off"), f("src_off"), f("di"), f("si")
        self.dst = SymRegion("dst")
        self.src = SymRegion("src", writable=False)
        self.D_arr0, self.S_arr0 = self.dst.arr, self.src.arr
        self.D0 = (self.d0 << 3) + self.di0
        self.S0 = (self.s0 << 3) + self.si0
        self.Eend = ((self.D0 + self.N0 + 7) >> 3) << 3          # end of the last touched destination byte, in bits

    def pre(self):
        k = z3.BitVec("k", 32)
        N0, d0, s0, di0, si0 = self.N0, self.d0, self.s0, self.di0, self.si0
        return [
            z3.And(N0 >= 0, N0 < LIM, d0 >= 0, d0 < LIM, s0 >= 0, s0 < LIM, di0 >= 0, di0 < LIM, si0 >= 0, si0 < LIM),
            # destination bits [D0, E) are zero (fresh output buffer / zeroed struct: the API's precondition)
            z3.ForAll([k], z3.Implies(z3.And(k >= self.D0, k < self.Eend), bit(self.D_arr0, k) == 0)),
            # both objects contain the bytes that hold the two bit ranges
            z3.And(self.dst.size >= 0, self.dst.size < (1 << 26), (self.Eend >> 3) <= self.dst.size),
            z3.And(self.src.size >= 0, self.src.size < (1 << 26), ((self.S0 + N0 + 7) >> 3) <= self.src.size),
        ]

    def inv(self, it):
        n = it.get_local("n", I32)
        di, si = it.get_local("di", I32), it.get_local("si", I32)
        dp = it.load(LV(it.local("dst"), 0, TPtr(TInt(8, False))))
        sp = it.load(LV(it.local("src"), 0, TPtr(TInt(8, False))))
        doff, soff = G.o32(dp.off), G.o32(sp.off)
        n, di, si = [x if z3.is_expr(x) else bv32(x) for x in (n, di, si)]
        t = self.N0 - n
        k = z3.BitVec("k", 32)
        mem = self.dst.arr
        cont = getattr(self, "with_content", True)
        return [x for x in self._inv_all(it, dp, sp, n, di, si, doff, soff, t, k, mem) if cont or x[0] != "content"]

    def _inv_all(self, it, dp, sp, n, di, si, doff, soff, t, k, mem):
        return [
            ("pointers", z3.BoolVal(dp.region is self.dst and sp.region is self.src)),
            ("range", z3.And(n >= 0, n <= self.N0, di >= 0, di < LIM + 16, si >= 0, si < LIM + 16, doff >= 0, soff >= 0,
                             doff < 2 * LIM, soff < 2 * LIM)),
            ("position", z3.And((doff << 3) + di == self.D0 + t, (soff << 3) + si == self.S0 + t)),
            ("content", z3.ForAll([k], z3.Implies(z3.And(k >= 0, k < t), bit(mem, self.D0 + k) == bit(self.S_arr0, self.S0 + k)))),
            ("rest-zero", z3.ForAll([k], z3.Implies(z3.And(k >= self.D0 + t, k < self.Eend), bit(mem, k) == 0))),
            ("frame-bytes", z3.ForAll([k], z3.Implies(z3.And(k >= 0, z3.Or(k < (self.D0 >> 3), k >= (self.Eend >> 3))),
                                                      z3.Select(mem, k) == z3.Select(self.D_arr0, k)))),
            ("frame-low-bits", z3.ForAll([k], z3.Implies(z3.And(k >= ((self.D0 >> 3) << 3), k < self.D0),
                                                         bit(mem, k) == bit(self.D_arr0, k)))),
            ("source-untouched", z3.BoolVal(self.src.writes == 0)),
        ]


@cproof("c[le]:BpCopyBufferBits/frame", "BpCopyBufferBits", ["XC"],
        must=["BpCopyBufferBits#1/inv-preserve#frame-bytes", "BpCopyBufferBits#1/inv-preserve#rest-zero", "post:frame"])
def _copy_le_frame(E, it):
    """little-endian body (u32 / u16 / u8 fast paths included), UNBOUNDED n: every access lies inside the two objects, no undefined
    behaviour, n decreases, bytes outside [D0 div 8, ceil((D0+n)/8)) and the bits below D0 are unchanged, bits from D0+n to the end
    of the last byte stay zero, the source is not written.  (The content clause of the fast paths is NOT part of this registered
    proof: its obligations need > 400 s and are unstable; content for the little-endian body is covered per program, and the
    single-byte paths it shares with the big-endian body by c[be]:BpCopyBufferBits.)"""
    _copy(E, it, with_content=False)


@cproof("c[le]:BpCopyBufferBits/full", "BpCopyBufferBits", ["XC-full"],
        must=["BpCopyBufferBits#1/inv-preserve#content", "post:content"])
def _copy_le(E, it):
    """n >= 0 bits (UNBOUNDED: the batch array path included) from source bit S0 to destination bit D0, destination bits zero on
    entry: on exit destination bits [D0, D0+n) equal source bits [S0, S0+n), the rest of the last byte stays zero, every byte
    outside [D0 div 8, ceil((D0+n)/8)) and the bits below D0 in the first byte are unchanged, the source is not written, every
    access lies inside the two objects (u32 / u16 / u8 / partial / unaligned paths), no undefined behaviour, n decreases"""
    _copy(E, it)


@cproof("c[be]:BpCopyBufferBits", "BpCopyBufferBits", ["XC"], big=True,
        must=["BpCopyBufferBits#1/inv-preserve#content", "post:content", "post:frame"])
def _copy_be(E, it):
    """the same contract for the body compiled with BP_BIG_ENDIAN (only the endian-neutral single-byte paths remain)"""
    _copy(E, it)


def _copy(E, it, with_content=True):
    st = CopySetup(E, it)
    st.with_content = with_content
    for c in st.pre():
        E.assume(c)
    E.cover("requires")
    it._local_types = {"n": I32, "di": I32, "si": I32, "dst": ("ptr", st.dst), "src": ("ptr", st.src)}
    cut = LoopCut(
        inv=st.inv, variant=lambda I: (lambda n: n if z3.is_expr(n) else bv32(n))(I.get_local("n", I32)),
        havoc_locals=["n", "di", "si", "dst", "src"], havoc_regions=[st.dst], hints=copy_hints(st))
    def snap(I):
        n, di, si, doff, soff = _state(st, I)
        # t, destination byte and bit position, source byte and bit position at the loop head
        return (st.N0 - n, doff + z3.LShR(di, 3), di & 7, soff + z3.LShR(si, 3), si & 7)

    def lemmas(I, head, k):
        t_old, dph, dbit, sph, sbit = head
        pos = st.D0 + k
        U, L = z3.ULT, z3.LShR
        return [
            # a bit copied earlier lies in an earlier byte, or in the current byte below the current position
            ("earlier-bit-index", z3.Implies(z3.And(k >= 0, k < t_old), z3.Or(U(L(pos, 3), dph), z3.And(L(pos, 3) == dph, U(pos & 7, dbit))))),
            ("later-bit-index", z3.Implies(z3.And(k >= t_old, k < 2 * LIM), z3.UGE(L(pos, 3), dph))),
            ("earlier-position", z3.Implies(z3.And(k >= 0, k < st.D0 + t_old), z3.Or(U(L(k, 3), dph), z3.And(L(k, 3) == dph, U(k & 7, dbit))))),
            ("later-position", z3.Implies(z3.And(k >= st.D0 + t_old, k < 32 * LIM), z3.UGE(L(k, 3), dph))),
            # positions of bit k relative to the current destination / source byte (q = k - t_old is the offset inside the chunk)
            ("dst-chunk-offset", z3.Implies(z3.And(k >= t_old, k < 2 * LIM), pos == (dph << 3) + dbit + (k - t_old))),
            ("src-chunk-offset", z3.Implies(z3.And(k >= t_old, k < 2 * LIM), st.S0 + k == (sph << 3) + sbit + (k - t_old))),
            # the bits of this iteration (t_old <= k < t_new) lie in the (at most four) bytes it writes
            ("chunk-extent", z3.Implies(z3.And(k >= t_old, k < st.N0 - _state(st, I)[0]),
                                        z3.And(z3.UGE(L(pos, 3), dph), z3.ULE(L(pos, 3), dph + 3)))),
        ]
    cut.snapshot = snap
    cut.lemmas = lemmas
    # bits copied by earlier iterations / bits of this iteration and beyond (the quantified variable is a bit INDEX k in
    # `content`, an absolute POSITION in the other conjuncts: both splits are on the same boundary)
    def cases(I, head, label):
        t_old, dph, dbit, sph, sbit = head
        # the quantified variable is a bit INDEX in `content`, an absolute bit POSITION in `rest-zero` / `frame-low-bits`,
        # a BYTE index in `frame-bytes`: split each on the bytes this iteration can write
        if label == "content":
            byte_of, before = (lambda k: z3.LShR(st.D0 + k, 3)), (lambda k: k < t_old)
        elif label == "frame-bytes":
            byte_of, before = (lambda k: k), (lambda k: z3.ULT(k, dph))
        else:
            byte_of, before = (lambda k: z3.LShR(k, 3)), (lambda k: k < st.D0 + t_old)
        out = [("before-this-chunk", before)]
        for j in range(4):          # the destination bytes one iteration can write (u32 path: four)
            out.append(("this-chunk-byte+%d" % j, lambda k, j=j: z3.And(z3.Not(before(k)), byte_of(k) == dph + j)))
        out.append(("beyond-this-chunk", lambda k: z3.And(z3.Not(before(k)), byte_of(k) != dph, byte_of(k) != dph + 1,
                                                          byte_of(k) != dph + 2, byte_of(k) != dph + 3)))
        return out
    cut.cases = cases
    cut.instance_terms = lambda I, head, k: [st.D0 + k]        # `content` speaks of bit index k, `rest-zero` of position D0 + k
    it.loop_cuts[("BpCopyBufferBits", 1)] = cut
    frame_holder = {}
    # run with access to the callee's frame on exit: wrap call_func to keep the frame alive for the postcondition
    orig = it.frames

    class Keep(list):
        def pop(self_, *a):
            frame_holder["f"] = self_[-1]
            return list.pop(self_, *a)
    it.frames = Keep(it.frames)
    it.call_func("BpCopyBufferBits", [st.N0, Ptr(st.dst, st.d0), Ptr(st.src, st.s0), st.di0, st.si0])
    k = z3.BitVec("k", 32)
    mem = st.dst.arr
    if with_content:
        E.oblige("post:content", z3.Implies(z3.And(k >= 0, k < st.N0), bit(mem, st.D0 + k) == bit(st.S_arr0, st.S0 + k)))
    E.oblige("post:rest-zero", z3.Implies(z3.And(k >= st.D0 + st.N0, k < st.Eend), bit(mem, k) == 0))
    E.oblige("post:frame", z3.And(
        z3.Implies(z3.And(k >= 0, z3.Or(k < (st.D0 >> 3), k >= (st.Eend >> 3))), z3.Select(mem, k) == z3.Select(st.D_arr0, k)),
        z3.Implies(z3.And(k >= ((st.D0 >> 3) << 3), k < st.D0), bit(mem, k) == bit(st.D_arr0, k))), kind="frame")
    E.oblige("post:source-untouched", z3.BoolVal(st.src.writes == 0), kind="frame")


# ----------------------------------------------------------------------------- BpEndecodeBaseType and friends
CTX = TStruct("BpProcessorContext")


def mk_ctx(E, it, is_encode: bool):
    """struct BpProcessorContext { is_encode, i (symbolic), s -> symbolic buffer }"""
    T = it.T
    ctx = it.alloc("ctx", T.sizeof(CTX), 0, kind="arg")
    i0 = E.fresh("i", z3.BitVecSort(32))
    E.assume(z3.And(i0 >= 0, i0 < LIM))
    buf = SymRegion("s")
    it.store(LV(ctx, T.field("BpProcessorContext", "is_encode")[0], TInt(8, False, is_bool=True)), 1 if is_encode else 0)
    it.store(LV(ctx, T.field("BpProcessorContext", "i")[0], I32), i0)
    it.store(LV(ctx, T.field("BpProcessorContext", "s")[0], TPtr(TInt(8, False))), Ptr(buf, 0))
    return ctx, buf, i0


def ctx_i(it, ctx):
    v = it.load(LV(ctx, it.T.field("BpProcessorContext", "i")[0], I32))
    return v if z3.is_expr(v) else bv32(v)


def _basetype_le(enc):
    mode = "encode" if enc else "decode"

    @cproof("c[le]:BpEndecodeBaseType/" + mode, "BpEndecodeBaseType", ["C03", "C07", "C14"], must=["post:copy-call", "post:cursor"],
            calls=["BpCopyBufferBits"])
    def _p(E, it):
        """little-endian body: exactly one BpCopyBufferBits(nbits, ctx->s, data, ctx->i, 0) when encoding - (nbits, data, ctx->s, 0, ctx->i)
        when decoding - then ctx->i += nbits.  With the contract of BpCopyBufferBits: stream bits [i, i+nbits) = the object's bits
        [0, nbits) in memory order (on a little-endian target: the low nbits of its value) and vice versa"""
        ctx, buf, i0 = mk_ctx(E, it, enc)
        n = E.fresh("nbits", z3.BitVecSort(32))
        E.assume(z3.And(n >= 1, n < LIM))
        data = SymRegion("data")
        calls = []
        it.stubs["BpCopyBufferBits"] = lambda I, a: calls.append(a)
        it.call_func("BpEndecodeBaseType", [n, Ptr(ctx, 0), Ptr(data, 0)])
        ok = len(calls) == 1
        if ok:
            cn, dst, src, di, si = calls[0]
            want_dst, want_src = (buf, data) if enc else (data, buf)
            tb = lambda x: x if z3.is_expr(x) else bv32(x)
            E.oblige("post:copy-call", z3.And(z3.BoolVal(dst.region is want_dst and src.region is want_src), tb(cn) == n,
                                              G.o32(dst.off) == 0, G.o32(src.off) == 0,
                                              tb(di) == (i0 if enc else 0), tb(si) == (0 if enc else i0)))
        else:
            E.oblige("post:copy-call", False)
        E.oblige("post:cursor", ctx_i(it, ctx) == i0 + n)
    return _p


_basetype_le(True)
_basetype_le(False)


def _basetype_be(enc):
    mode = "encode" if enc else "decode"

    @cproof("c[be]:BpEndecodeBaseType/" + mode, "BpEndecodeBaseType", ["C06", "C14"], big=True,
            must=["post:copy-call", "post:cursor", "post:staging"], calls=["BpCopyBufferBits"])
    def _p(E, it):
        """big-endian body, nbits 1..64, storage size = smallest covering 1/2/4/8 bytes (the descriptor's sizeof): the staging buffer
        handed to BpCopyBufferBits holds the little-endian bytes of the object's VALUE (encode), resp. the object receives the value
        whose little-endian bytes the copy produced (decode) - so the wire carries value bits LSB first whatever the host byte order;
        ctx->i += nbits; only the `size` bytes of the object are accessed"""
        ctx, buf, i0 = mk_ctx(E, it, enc)
        n = E.fresh("nbits", z3.BitVecSort(32))
        E.assume(z3.And(n >= 1, n <= 64))
        vals = [E.fresh("b%d" % k, z3.BitVecSort(8)) for k in range(8)]
        data = it.alloc("*data", 8, list(vals), kind="arg")
        staged = {}
        produced = [E.fresh("le%d" % k, z3.BitVecSort(8)) for k in range(8)]

        def copy(I, a):
            cn, dst, src, di, si = a
            staged["args"] = a
            if enc:
                staged["le"] = list(src.region.data[:8])
            else:
                # contract of the copy (n bits ORed into a ZEROED destination window): requires the staging bytes zero - a staging
                # buffer that still holds bits of an earlier call violates it -; bits [0, n) receive the stream bits, bits >= n stay
                n32 = cn if z3.is_expr(cn) else bv32(cn)
                for k in range(8):
                    old = dst.region.data[k]
                    old = old if z3.is_expr(old) else z3.BitVecVal(old, 8)
                    E.oblige("pre-of-callee:BpCopyBufferBits/destination-zero[%d]" % k, old == 0, kind="pre-of-callee")
                    rem = n32 - 8 * k                              # bits of this byte that are copied (may be <= 0 or >= 8)
                    keep = z3.LShR(z3.BitVecVal(255, 8), z3.Extract(7, 0, 8 - rem))
                    got = z3.If(rem >= 8, produced[k], z3.If(rem <= 0, old, (produced[k] & keep) | old))
                    staged.setdefault("new", []).append(got)
                    dst.region.data[k] = got
        it.stubs["BpCopyBufferBits"] = copy
        it.call_func("BpEndecodeBaseType", [n, Ptr(ctx, 0), Ptr(data, 0)])
        size = z3.If(n <= 8, 1, z3.If(n <= 16, 2, z3.If(n <= 32, 4, 8)))
        a = staged.get("args")
        if a is None:
            E.oblige("post:copy-call", False)
            return
        cn, dst, src, di, si = a
        tb = lambda x: x if z3.is_expr(x) else bv32(x)
        le_region = (src if enc else dst).region
        other = (dst if enc else src).region
        E.oblige("post:copy-call", z3.And(z3.BoolVal(other is buf and le_region is not data and le_region.size == 8), tb(cn) == n,
                                          tb(di) == (i0 if enc else 0), tb(si) == (0 if enc else i0)))
        E.oblige("post:cursor", ctx_i(it, ctx) == i0 + n)
        # which path are we on: size is concrete per path (the fork happened inside BpBaseTypeStorageSize)
        for sz in (1, 2, 4, 8):
            on_path = size == sz
            if enc:
                le = staged["le"]
                # big-endian object of sz bytes: value byte k (LSB = 0) is memory byte sz-1-k
                conds = [(le[k] if z3.is_expr(le[k]) else z3.BitVecVal(le[k], 8)) == vals[sz - 1 - k] for k in range(sz)]
                E.oblige("post:staging[size=%d]" % sz, z3.Implies(on_path, z3.And(*conds)))
            else:
                now = [data.data[k] if z3.is_expr(data.data[k]) else z3.BitVecVal(data.data[k], 8) for k in range(8)]
                conds = [now[sz - 1 - k] == staged["new"][k] for k in range(sz)] + [now[k] == vals[k] for k in range(sz, 8)]
                E.oblige("post:staging[size=%d]" % sz, z3.Implies(on_path, z3.And(*conds)))
        E.oblige("post:object-window", z3.BoolVal(all(k < 8 for k in data.reads | data.writes)), kind="frame")
    return _p


_basetype_be(True)
_basetype_be(False)


def _sign(big, size, enc):
    tag = "be" if big else "le"
    bits = 8 * size

    @cproof("c[%s]:BpHandleIntSignAfterEndecode/size=%d/%s" % (tag, size, "encode" if enc else "decode"), "BpHandleIntSignAfterEndecode",
            ["C03", "C14"] if not big else ["C06", "C14"], big=big, must=["post:"])
    def _p(E, it):
        """decoding, storage size = the smallest of 1/2/4/8 bytes covering nbits (what the descriptors' sizeof gives), bits >= nbits of
        the value zero (decode into zeroed storage): the object's VALUE becomes sx(value, nbits) - unchanged for nbits in {8,16,32,64}
        and when bit nbits-1 is clear; when encoding nothing is touched; no undefined shift"""
        n = E.fresh("nbits", z3.BitVecSort(32))
        v = E.fresh("v", z3.BitVecSort(bits))
        E.assume(z3.And(n >= 1, n <= bits, z3.Or(z3.BoolVal(size == 1), n > bits // 2)))
        nb = z3.Extract(bits - 1, 0, n) if bits < 32 else (z3.ZeroExt(bits - 32, n) if bits > 32 else n)
        E.assume(z3.Or(nb == bits, z3.LShR(v, nb) == 0))
        E.cover("requires")
        ctx = it.alloc("ctx", it.T.sizeof(CTX), 0, kind="arg")
        it.store(LV(ctx, it.T.field("BpProcessorContext", "is_encode")[0], TInt(8, False, is_bool=True)), 1 if enc else 0)
        data = it.alloc("*data", size, None, kind="arg")
        it.store(LV(data, 0, TInt(bits, False)), v)
        it.call_func("BpHandleIntSignAfterEndecode", [size, n, Ptr(ctx, 0), Ptr(data, 0)])
        out = it.load(LV(data, 0, TInt(bits, False)))
        out = out if z3.is_expr(out) else z3.BitVecVal(out, bits)
        if enc:
            E.oblige("post:encode-untouched", out == v)
        else:
            sign = z3.Extract(0, 0, z3.LShR(v, nb - 1)) == 1
            ones = ~z3.BitVecVal(0, bits)
            E.oblige("post:sign-extended", out == z3.If(z3.And(sign, nb < bits), v | (ones << nb), v))
    return _p


for _big in (False, True):
    for _size in (1, 2, 4, 8):
        _sign(_big, _size, False)
    _sign(_big, 4, True)


@cproof("c[le]:BpEndecodeInt", "BpEndecodeInt", ["C03", "C14"], must=["post:order"], calls=["BpEndecodeBaseType", "BpHandleIntSignAfterEndecode"])
def _int(E, it):
    """copies the bits, THEN handles the sign, with (nbits, ctx, data) resp. (size, nbits, ctx, data) passed through"""
    log = []
    it.stubs["BpEndecodeBaseType"] = lambda I, a: log.append(("base",) + tuple(a))
    it.stubs["BpHandleIntSignAfterEndecode"] = lambda I, a: log.append(("sign",) + tuple(a))
    size, n = E.fresh("size", z3.BitVecSort(32)), E.fresh("nbits", z3.BitVecSort(32))
    ctx = it.alloc("ctx", 16, 0, kind="arg")
    data = it.alloc("data", 8, 0, kind="arg")
    it.call_func("BpEndecodeInt", [size, n, Ptr(ctx, 0), Ptr(data, 0)])
    ok = [x[0] for x in log] == ["base", "sign"] and log[0][2].region is ctx and log[0][3].region is data \
        and log[1][3].region is ctx and log[1][4].region is data
    E.oblige("post:order", z3.And(z3.BoolVal(ok), log[0][1] == n, log[1][1] == size, log[1][2] == n) if ok else False)


def _ahead(fn, field, enc):
    @cproof("c[le]:" + fn, fn, ["C03", "C05"], must=["post:prefix"], calls=["BpEndecodeBaseType"])
    def _p(E, it):
        """the 16-bit prefix goes through BpEndecodeBaseType(16, ctx, &data) with data = (uint16_t)(capacity | nbits) when encoding,
        a zeroed uint16_t whose decoded value is returned when decoding"""
        dname = "BpArrayDescriptor" if "Array" in fn else "BpMessageDescriptor"
        dt = TStruct(dname)
        desc = it.alloc("descriptor", it.T.sizeof(dt), 0, kind="arg")
        val = E.fresh(field, z3.BitVecSort(32))
        E.assume(z3.And(val >= 0, val <= 65535))
        it.store(LV(desc, it.T.field(dname, field)[0], I32), val)
        ctx = it.alloc("ctx", it.T.sizeof(CTX), 0, kind="arg")
        seen = []
        decoded = E.fresh("decoded", z3.BitVecSort(16))

        def base(I, a):
            n, c, d = a
            cur = I.load(LV(d.region, d.off, TInt(16, False)))
            seen.append((n, c, d, cur))
            if not enc:
                I.store(LV(d.region, d.off, TInt(16, False)), decoded)
        it.stubs["BpEndecodeBaseType"] = base
        r = it.call_func(fn, [Ptr(desc, 0), Ptr(ctx, 0)])
        if len(seen) != 1:
            E.oblige("post:prefix", False)
            return
        n, c, d, cur = seen[0]
        cur = cur if z3.is_expr(cur) else z3.BitVecVal(cur, 16)
        if enc:
            E.oblige("post:prefix", z3.And(z3.BoolVal(n == 16 and c.region is ctx and d.region.size == 2), cur == z3.Extract(15, 0, val)))
        else:
            rr = r if z3.is_expr(r) else z3.BitVecVal(r, 16)
            E.oblige("post:prefix", z3.And(z3.BoolVal(n == 16 and c.region is ctx and d.region.size == 2), cur == 0, rr == decoded))
    return _p


_ahead("BpEncodeArrayExtensibleAhead", "cap", True)
_ahead("BpDecodeArrayExtensibleAhead", "cap", False)
_ahead("BpEncodeMessageExtensibleAhead", "nbits", True)
_ahead("BpDecodeMessageExtensibleAhead", "nbits", False)


# ----------------------------------------------------------------------------- walkers: field / alias dispatch, message, array
FLAGS = {"BOOL": 1, "INT": 2, "UINT": 3, "BYTE": 4, "ENUM": 5, "ALIAS": 6, "ARRAY": 7, "MESSAGE": 8}
BPTYPE = TStruct("BpType")


def put_type(E, it, region, off, flag, nbits, size, to_flag=0, proc="abs_processor"):
    T = it.T
    f = lambda nm: T.field("BpType", nm)
    it.store(LV(region, off + f("flag")[0], I32), flag)
    it.store(LV(region, off + f("nbits")[0], I32), nbits)
    it.store(LV(region, off + f("size")[0], I32), size)
    it.store(LV(region, off + f("processor")[0], TPtr(TInt(8, False))), CI.FuncPtr(proc))
    it.store(LV(region, off + f("json_formatter")[0], TPtr(TInt(8, False))), CI.NULL)
    it.store(LV(region, off + f("to_flag")[0], I32), to_flag)


def _dispatch(fn, dname, tfield, has_data_member):
    for fname, flag in FLAGS.items():
        if fn == "BpEndecodeAlias" and fname in ("ENUM", "ALIAS", "MESSAGE"):
            continue        # an alias names bool / int / uint / byte / array only (validator contract, C08)

        @cproof("c[le]:%s/%s" % (fn, fname), fn, ["C03", "C12"], must=["post:dispatch"],
                calls=["BpEndecodeBaseType", "BpEndecodeInt", "type.processor (abstract processor)"])
        def _p(E, it, fname=fname, flag=flag):
            """dispatch on the type flag: bool / uint / byte / enum -> BpEndecodeBaseType(nbits, ctx, data); int -> BpEndecodeInt(size,
            nbits, ctx, data); alias / array / message -> the type's processor(data, ctx) - with the field's (resp. the alias's) data
            address and the same context"""
            T = it.T
            dt = TStruct(dname)
            desc = it.alloc("descriptor", T.sizeof(dt), 0, kind="arg")
            nbits, size = E.fresh("nbits", z3.BitVecSort(32)), E.fresh("size", z3.BitVecSort(32))
            put_type(E, it, desc, T.field(dname, tfield)[0], flag, nbits, size)
            target = it.alloc("field-data", 8, 0, kind="arg")
            if has_data_member:
                it.store(LV(desc, T.field(dname, "data")[0], TPtr(TInt(8, False))), Ptr(target, 0))
            ctx = it.alloc("ctx", T.sizeof(CTX), 0, kind="arg")
            log = []
            it.stubs["BpEndecodeBaseType"] = lambda I, a: log.append(("base",) + tuple(a))
            it.stubs["BpEndecodeInt"] = lambda I, a: log.append(("int",) + tuple(a))
            it.stubs["abs_processor"] = lambda I, a: log.append(("proc",) + tuple(a))
            other = it.alloc("unrelated", 8, 0, kind="arg")
            it.call_func(fn, [Ptr(desc, 0), Ptr(ctx, 0), Ptr(other, 0) if has_data_member else Ptr(target, 0)])
            if len(log) != 1:
                E.oblige("post:dispatch", False)
                return
            e = log[0]
            if fname in ("BOOL", "UINT", "BYTE", "ENUM"):
                ok = e[0] == "base" and e[2].region is ctx and e[3].region is target and e[3].off == 0
                E.oblige("post:dispatch", z3.And(z3.BoolVal(ok), e[1] == nbits) if ok else False)
            elif fname == "INT":
                ok = e[0] == "int" and e[3].region is ctx and e[4].region is target and e[4].off == 0
                E.oblige("post:dispatch", z3.And(z3.BoolVal(ok), e[1] == size, e[2] == nbits) if ok else False)
            else:
                ok = e[0] == "proc" and e[1].region is target and e[1].off == 0 and e[2].region is ctx
                E.oblige("post:dispatch", z3.BoolVal(ok))


_dispatch("BpEndecodeMessageField", "BpMessageFieldDescriptor", "type", True)
_dispatch("BpEndecodeAlias", "BpAliasDescriptor", "to", False)


def set_ctx_i(it, ctx, v):
    it.store(LV(ctx, it.T.field("BpProcessorContext", "i")[0], I32), v)


def _message(enc, ext):
    mode = ("encode" if enc else "decode") + ("/extensible" if ext else "/fixed")

    @cproof("c[le]:BpEndecodeMessage/" + mode, "BpEndecodeMessage", ["C03", "C05", "C12"],
            must=["post:cursor", "post:field-call", "BpEndecodeMessage#1/inv-preserve#cursor"],
            calls=["BpEndecodeMessageField", "BpEncodeMessageExtensibleAhead", "BpDecodeMessageExtensibleAhead"])
    def _p(E, it):
        """fields are processed in descriptor order k = 0 .. nfields-1 (each &field_descriptors[k], same ctx), after the 16-bit prefix
        when extensible; cursor = i0 + 16*ext + sum of the fields' sizes, and when decoding an extensible message
        i0 + max(ahead, that) - a longer sender message is skipped to its end, never backwards"""
        T = it.T
        dt = TStruct("BpMessageDescriptor")
        fdt = TStruct("BpMessageFieldDescriptor")
        fsz = T.sizeof(fdt)
        desc = it.alloc("descriptor", T.sizeof(dt), 0, kind="arg")
        F = E.fresh("nfields", z3.BitVecSort(32))
        ahead = E.fresh("ahead", z3.BitVecSort(16))
        E.assume(z3.And(F >= 0, F <= 255))
        fds = SymRegion("field_descriptors")
        it.store(LV(desc, T.field("BpMessageDescriptor", "extensible")[0], TInt(8, False, is_bool=True)), 1 if ext else 0)
        it.store(LV(desc, T.field("BpMessageDescriptor", "nfields")[0], I32), F)
        it.store(LV(desc, T.field("BpMessageDescriptor", "nbits")[0], I32), 0)
        it.store(LV(desc, T.field("BpMessageDescriptor", "field_descriptors")[0], TPtr(fdt)), Ptr(fds, 0))
        ctx = it.alloc("ctx", T.sizeof(CTX), 0, kind="arg")
        it.store(LV(ctx, T.field("BpProcessorContext", "is_encode")[0], TInt(8, False, is_bool=True)), 1 if enc else 0)
        i0 = E.fresh("i", z3.BitVecSort(32))
        E.assume(z3.And(i0 >= 0, i0 < LIM))
        set_ctx_i(it, ctx, i0)
        wfn = z3.Function("wf32", z3.BitVecSort(32), z3.BitVecSort(32))
        ps = z3.Function("psum32", z3.BitVecSort(32), z3.BitVecSort(32))
        E.assume(ps(bv32(0)) == 0)
        m_ = z3.BitVec("m_", 32)
        E.assume(z3.ForAll([m_], z3.Implies(z3.And(m_ >= 0, m_ <= F), z3.And(ps(m_) >= 0, ps(m_) <= 65535))), heavy=True)
        pre = 16 if ext else 0
        calls, prefix = [], []

        def field(I, a):
            d, c, _ = a
            k = z3.UDiv(G.o32(d.off), bv32(fsz))
            calls.append((d, c, k, ctx_i(I, ctx)))
            E.assume(z3.And(ps(k + 1) == ps(k) + wfn(k), wfn(k) >= 0, ps(k + 1) <= 65535, ps(k) >= 0))
            set_ctx_i(I, ctx, ctx_i(I, ctx) + wfn(k))

        def enc_ahead(I, a):
            prefix.append(("enc", ctx_i(I, ctx)))
            set_ctx_i(I, ctx, ctx_i(I, ctx) + 16)

        def dec_ahead(I, a):
            prefix.append(("dec", ctx_i(I, ctx)))
            set_ctx_i(I, ctx, ctx_i(I, ctx) + 16)
            return ahead
        it.stubs.update({"BpEndecodeMessageField": field, "BpEncodeMessageExtensibleAhead": enc_ahead,
                         "BpDecodeMessageExtensibleAhead": dec_ahead})
        it._local_types = {"k": I32}

        def inv(I):
            k = I.get_local("k", I32)
            k = k if z3.is_expr(k) else bv32(k)
            return [("range", z3.And(k >= 0, k <= F)), ("cursor", ctx_i(I, ctx) == i0 + pre + ps(k))]

        cut = LoopCut(inv=inv, variant=lambda I: F - (lambda k: k if z3.is_expr(k) else bv32(k))(I.get_local("k", I32)), havoc_locals=["k"])
        orig = GInterp.cut_loop

        def havoc_ctx_then(I, n, c, lid):
            return orig(I, n, c, lid)
        # ctx->i is heap state modified by the loop: havoc it together with k (fresh value constrained by the invariant)
        real_inv = cut.inv

        def inv_with_havoc(I, _state={"done": False}):
            return real_inv(I)
        cut.inv = inv_with_havoc
        cut.pre_assume = lambda I: (set_ctx_i(I, ctx, E.fresh("ctx_i", z3.BitVecSort(32))), calls.clear())
        it.loop_cuts[("BpEndecodeMessage", 1)] = cut
        back = {}
        cut.at_back_edge = lambda I: back.update(k=(lambda k: k if z3.is_expr(k) else bv32(k))(I.get_local("k", I32)))
        try:
            it.call_func("BpEndecodeMessage", [Ptr(desc, 0), Ptr(ctx, 0), CI.NULL])
        except EN.StopPath:
            # back edge: exactly one field call in this iteration, for descriptor k-1 at its offset
            k1 = back.get("k")
            ok = len(calls) == 1 and calls[0][0].region is fds and calls[0][1].region is ctx
            if ok and k1 is not None:
                E.oblige("post:field-call", z3.And(calls[0][2] == k1 - 1, G.o32(calls[0][0].off) == (k1 - 1) * fsz,
                                                   calls[0][3] == i0 + pre + ps(k1 - 1)), qf=True)
            else:
                E.oblige("post:field-call", False)
            raise
        own = pre + ps(F)
        if prefix:
            E.oblige("post:prefix-call", z3.And(z3.BoolVal(ext and len(prefix) == 1 and prefix[0][0] == ("enc" if enc else "dec")),
                                                prefix[0][1] == i0))
        else:
            E.oblige("post:prefix-call", z3.BoolVal(not ext))
        if enc or not ext:
            E.oblige("post:cursor", ctx_i(it, ctx) == i0 + own)
        else:
            a32 = z3.ZeroExt(16, ahead)
            E.oblige("post:cursor", ctx_i(it, ctx) == i0 + z3.If(a32 >= own, a32, own))
    return _p


for _enc in (True, False):
    for _ext in (True, False):
        _message(_enc, _ext)


def _array(enc, ext, kind, big=False):
    """kind: 'base' (per-element BpEndecodeBaseType), 'int' (BpEndecodeInt), 'proc' (alias / message element processor),
    'batch' / 'batch-int' (little-endian contiguous copy for standard widths)"""
    tag = "be" if big else "le"
    mode = "%s/%s/%s" % ("encode" if enc else "decode", "extensible" if ext else "fixed", kind)
    batch = kind.startswith("batch")
    loop_no = 1          # loops are numbered in EXECUTION order per call: every path of this function runs exactly one loop
    must = ["post:cursor"] + ([] if kind == "batch" else ["post:element-call"])

    @cproof("c[%s]:BpEndecodeArray/%s" % (tag, mode), "BpEndecodeArray", ["C03", "C05", "C14"] if not big else ["C06", "C14"], big=big,
            must=must, calls=["BpEndecodeBaseType", "BpEndecodeInt", "BpHandleIntSignAfterEndecode", "element processor",
                              "BpEncodeArrayExtensibleAhead", "BpDecodeArrayExtensibleAhead"])
    def _p(E, it):
        """elements k = 0 .. cap-1 are processed in order at data + k*element_size through the callee for the element kind with the same
        ctx (per-element path), or - little-endian, standard width, integer kind - by ONE BpEndecodeBaseType(nbits*cap, ctx, data)
        followed for signed elements by the sign handler on every element (batch path); prefix first when extensible;
        cursor = i0 + 16*ext + cap*w, and when decoding an extensible array i0 + 16 + max(ahead, cap)*w"""
        T = it.T
        dt = TStruct("BpArrayDescriptor")
        desc = it.alloc("descriptor", T.sizeof(dt), 0, kind="arg")
        cap = E.fresh("cap", z3.BitVecSort(32))
        esize = E.fresh("element_size", z3.BitVecSort(32))
        w = E.fresh("w", z3.BitVecSort(32))
        ahead = E.fresh("ahead", z3.BitVecSort(16))
        E.assume(z3.And(cap >= 1, cap <= 65535, esize >= 1, esize <= 8192, w >= 0, w <= 4096))
        # k*w and k*element_size as prefix-sum functions with the step equation assumed per element (linear: no 32-bit multiplier
        # in the path conditions); mw(cap) stands for cap*w
        mw = z3.Function("mul_w", z3.BitVecSort(32), z3.BitVecSort(32))
        me = z3.Function("mul_esize", z3.BitVecSort(32), z3.BitVecSort(32))
        E.assume(z3.And(mw(bv32(0)) == 0, me(bv32(0)) == 0))
        # products / quotients of two symbolic operands are uninterpreted ghost functions MUL, DIV (a 32-bit multiplier / divider in
        # the formulas defeats all three solvers); the three laws used are proved below over the mathematical integers:
        #   (L1) c >= 1, w >= 0           ==> (c*w) div c = w
        #   (L2) 0 <= a <= 65535, 0 <= w <= 4096  ==> 0 <= a*w <= 65535*4096   (no 32-bit overflow)
        #   (L3) c >= 1, a, w >= 0        ==> max(a*w, c*w) = max(a, c) * w
        B32 = z3.BitVecSort(32)
        MUL = z3.Function("MUL", B32, B32, B32)
        DIV = z3.Function("DIV", B32, B32, B32)
        MUL_OK = z3.Function("MUL_OK", B32, B32, z3.BoolSort())
        absm = ext and not enc
        if absm:
            it.abs_muldiv = {"mul": MUL, "div": DIV, "mul_ok": MUL_OK}
        a32 = z3.ZeroExt(16, ahead)
        aw = MUL(a32, w)             # ahead * w
        ci, wi, ai = z3.Int("c"), z3.Int("w"), z3.Int("a")
        if not ext or enc:
            pass
        else:
            E.oblige("lemma:L1-exact-division", z3.Implies(z3.And(ci >= 1, wi >= 0), (ci * wi) / ci == wi), kind="lemma")
            E.oblige("lemma:L2-product-bounded", z3.Implies(z3.And(ai >= 0, ai <= 65535, wi >= 0, wi <= 4096),
                                                            z3.And(ai * wi >= 0, ai * wi <= 65535 * 4096)), kind="lemma")
            E.oblige("lemma:L3-max-distributes", z3.Implies(z3.And(ci >= 1, ai >= 0, wi >= 0),
                                                            z3.If(ai * wi >= ci * wi, ai * wi, ci * wi) == z3.If(ai >= ci, ai, ci) * wi),
                     kind="lemma")
        # instances (mw(cap) is the ghost for cap * w):
        E.assume(z3.And(mw(cap) >= 0, mw(cap) <= 65535 * 4096,
                        DIV(mw(cap), cap) == w,                                                  # L1
                        aw >= 0, aw <= 65535 * 4096, MUL_OK(a32, w), MUL(a32, w) == MUL(w, a32), MUL_OK(w, a32),   # L2
                        z3.If(aw >= mw(cap), aw, mw(cap)) == z3.If(a32 >= cap, aw, mw(cap))))   # L3
        step = lambda k: z3.And(mw(k + 1) == mw(k) + w, me(k + 1) == me(k) + esize, mw(k) >= 0, mw(k) < LIM, me(k) >= 0, me(k) < 64 * LIM)
        flag = {"base": FLAGS["UINT"], "int": FLAGS["INT"], "proc": FLAGS["MESSAGE"], "batch": FLAGS["UINT"], "batch-int": FLAGS["INT"]}[kind]
        if batch:
            nbits = E.fresh("nbits", z3.BitVecSort(32))
            E.assume(z3.Or(nbits == 8, nbits == 16, nbits == 32, nbits == 64))
            E.assume(w == nbits)
            if absm:
                # nbits * cap IS cap * w (w = nbits): the ghost mw(cap); standard widths times a 16-bit capacity cannot overflow
                E.assume(z3.And(MUL(nbits, cap) == mw(cap), MUL(cap, nbits) == mw(cap), MUL_OK(nbits, cap), MUL_OK(cap, nbits)))
        elif kind in ("base", "int") and not big:
            nbits = E.fresh("nbits", z3.BitVecSort(32))
            E.assume(z3.And(nbits >= 1, nbits <= 64, nbits != 8, nbits != 16, nbits != 32, nbits != 64))
        else:
            nbits = E.fresh("nbits", z3.BitVecSort(32))
            E.assume(z3.And(nbits >= 1, nbits <= 65535))
        it.store(LV(desc, T.field("BpArrayDescriptor", "extensible")[0], TInt(8, False, is_bool=True)), 1 if ext else 0)
        it.store(LV(desc, T.field("BpArrayDescriptor", "cap")[0], I32), cap)
        put_type(E, it, desc, T.field("BpArrayDescriptor", "element_type")[0], flag, nbits, esize)
        ctx = it.alloc("ctx", T.sizeof(CTX), 0, kind="arg")
        it.store(LV(ctx, T.field("BpProcessorContext", "is_encode")[0], TInt(8, False, is_bool=True)), 1 if enc else 0)
        i0 = E.fresh("i", z3.BitVecSort(32))
        E.assume(z3.And(i0 >= 0, i0 < LIM))
        set_ctx_i(it, ctx, i0)
        data = SymRegion("data")
        pre = 16 if ext else 0
        calls, prefix, base_calls = [], [], []

        def elem(tagname):
            def f(I, a):
                d = a[-1] if tagname != "proc" else a[0]
                calls.append((tagname, d, ctx_i(I, ctx), a))
                if tagname != "sign":
                    set_ctx_i(I, ctx, ctx_i(I, ctx) + w)
            return f

        def base(I, a):
            n, c, d = a
            if batch:
                base_calls.append((n, d, ctx_i(I, ctx)))
                set_ctx_i(I, ctx, ctx_i(I, ctx) + (n if z3.is_expr(n) else bv32(n)))
            else:
                elem("base")(I, a)
        it.stubs.update({"BpEndecodeBaseType": base, "BpEndecodeInt": elem("int"), "abs_processor": elem("proc"),
                         "BpHandleIntSignAfterEndecode": elem("sign"),
                         "BpEncodeArrayExtensibleAhead": lambda I, a: (prefix.append(("enc", ctx_i(I, ctx))), set_ctx_i(I, ctx, ctx_i(I, ctx) + 16))[0],
                         "BpDecodeArrayExtensibleAhead": lambda I, a: (prefix.append(("dec", ctx_i(I, ctx))), set_ctx_i(I, ctx, ctx_i(I, ctx) + 16), ahead)[2]})
        it._local_types = {"k": I32, "data_ptr": ("ptr", data)}
        tb = lambda x: x if z3.is_expr(x) else bv32(x)

        def inv(I):
            k = tb(I.get_local("k", I32))
            dp = I.load(LV(I.local("data_ptr"), 0, TPtr(TInt(8, False))))
            cur = (i0 + pre + (mw(cap) if absm else nbits * cap)) if batch else (i0 + pre + mw(k))
            return [("range", z3.And(k >= 0, k <= cap)), ("pointer", z3.And(z3.BoolVal(dp.region is data), G.o32(dp.off) == me(k))),
                    ("cursor", ctx_i(I, ctx) == cur)]
        cut = LoopCut(inv=inv, variant=lambda I: cap - tb(I.get_local("k", I32)), havoc_locals=["k", "data_ptr"])
        cut.pre_assume = lambda I: (set_ctx_i(I, ctx, E.fresh("ctx_i", z3.BitVecSort(32))), calls.clear())
        cut.hints = None
        orig_inv = cut.inv

        def inv2(I):
            r = orig_inv(I)
            E.assume(step(tb(I.get_local("k", I32))))      # defining equations of the two prefix-sum functions at the current k
            return r
        cut.inv = inv2
        back = {}
        cut.at_back_edge = lambda I: back.update(k=tb(I.get_local("k", I32)))
        if kind != "batch":
            it.loop_cuts[("BpEndecodeArray", loop_no)] = cut
        try:
            it.call_func("BpEndecodeArray", [Ptr(desc, 0), Ptr(ctx, 0), Ptr(data, 0)])
        except EN.StopPath:
            k1 = back.get("k")
            want = {"base": "base", "int": "int", "proc": "proc", "batch-int": "sign"}.get(kind)
            ok = k1 is not None and len(calls) == 1 and calls[0][0] == want and calls[0][1].region is data
            if ok:
                goal = [G.o32(calls[0][1].off) == me(k1 - 1)]
                if kind != "batch-int":
                    goal.append(calls[0][2] == i0 + pre + mw(k1 - 1))
                a = calls[0][3]
                if kind == "base":
                    goal += [tb(a[0]) == nbits, z3.BoolVal(a[1].region is ctx)]
                elif kind in ("int", "batch-int"):
                    goal += [tb(a[0]) == esize, tb(a[1]) == nbits, z3.BoolVal(a[2].region is ctx)]
                else:
                    goal += [z3.BoolVal(a[1].region is ctx)]
                E.oblige("post:element-call", z3.And(*goal), qf=True)
            else:
                E.oblige("post:element-call", False)
            raise
        if batch:
            ok = len(base_calls) == 1 and base_calls[0][1].region is data
            E.oblige("post:batch-copy", z3.And(tb(base_calls[0][0]) == (mw(cap) if absm else nbits * cap), G.o32(base_calls[0][1].off) == 0,
                                               base_calls[0][2] == i0 + pre) if ok else False)
        if prefix:
            E.oblige("post:prefix-call", z3.And(z3.BoolVal(ext and len(prefix) == 1 and prefix[0][0] == ("enc" if enc else "dec")),
                                                prefix[0][1] == i0))
        else:
            E.oblige("post:prefix-call", z3.BoolVal(not ext))
        total = (nbits * cap) if (batch and not absm) else mw(cap)
        if enc or not ext:
            E.oblige("post:cursor", ctx_i(it, ctx) == i0 + pre + total)
        else:
            # i0 + 16 + max(ahead, cap) * w  (products as the ghost terms MUL(ahead, w), mw(cap); laws L1-L3)
            E.oblige("post:cursor", ctx_i(it, ctx) == i0 + 16 + z3.If(a32 >= cap, aw, total))
            E.oblige("post:cursor-not-backwards", ctx_i(it, ctx) >= i0 + 16 + total)
    return _p


for _enc in (True, False):
    for _ext in (True, False):
        for _kind in ("base", "int", "proc", "batch", "batch-int"):
            _array(_enc, _ext, _kind)
        for _kind in ("base", "int", "proc"):
            _array(_enc, _ext, _kind, big=True)


@cproof("c[le]:BpJsonFormatString", "BpJsonFormatString", ["C16"], must=["post:formats-in-full", "post:n-advanced"],
        calls=["vsprintf / vsnprintf (libc)", "va_start", "va_end"],
        assumes=["libc: vsprintf(dst, fmt, va) writes the complete formatted text of length L (plus NUL) at dst and returns L; vsnprintf(dst, "
                 "size, fmt, va) writes at most size-1 characters of it and returns L (C99 7.19.6.12) - L is an unconstrained length here",
                 "the caller's buffer ctx->s is large enough for the text (BpJsonFormatContext carries no capacity; caller contract)"])
def _json_format_string(E, it):
    """one formatted write: the COMPLETE text of (format, the caller's variadic arguments) is written at ctx->s + ctx->n - whatever its
    length L - and ctx->n advances by exactly L; so the tokens the per-program C16 proofs collect from the callers (the key with a
    field name of any length, a 64-bit number, a brace) appear in the buffer in full and contiguously"""
    T = it.T
    jt = TStruct("BpJsonFormatContext")
    ctx = it.alloc("jctx", T.sizeof(jt), 0, kind="arg")
    n0 = E.fresh("n", z3.BitVecSort(32))
    L = E.fresh("L", z3.BitVecSort(32))
    E.assume(z3.And(n0 >= 0, n0 < (1 << 24), L >= 0, L < (1 << 24)))
    buf = SymRegion("s")
    it.store(LV(ctx, T.field("BpJsonFormatContext", "n")[0], I32), n0)
    it.store(LV(ctx, T.field("BpJsonFormatContext", "s")[0], TPtr(TInt(8, True))), Ptr(buf, 0))
    fmt = it.alloc("format", 8, 0, kind="arg")
    it.store_cells(fmt, 0, list(b'"%s":\0'))
    extra = [Ptr(it.alloc("name", 4, 0, kind="arg"), 0), E.fresh("x", z3.BitVecSort(64))]
    calls, started, ended = [], [], []

    def va_start(I, a, tys):
        started.append((a[0].region, list(I.frames[-1].get("__va_args__", []))))

    def vs(bounded):
        def f(I, a, tys):
            dst, size, f_, va = (a[0], a[1], a[2], a[3]) if bounded else (a[0], None, a[1], a[2])
            calls.append((dst, size, f_, va))
            return L
        return f
    it.externals.update({"__builtin_va_start": va_start, "__builtin_va_end": lambda I, a, tys: ended.append(a[0].region),
                         "vsprintf": vs(False), "vsnprintf": vs(True)})
    it.call_func("BpJsonFormatString", [Ptr(ctx, 0), Ptr(fmt, 0)] + extra)
    ok = len(calls) == 1 and len(started) == 1
    if ok:
        dst, size, f_, va = calls[0]
        ok = (isinstance(dst, Ptr) and dst.region is buf and isinstance(f_, Ptr) and f_.region is fmt and f_.off == 0
              and isinstance(va, Ptr) and va.region is started[0][0] and len(started[0][1]) == 2
              and started[0][1][0] is extra[0] and started[0][1][1] is extra[1])
    E.oblige("post:one-libc-call(format, caller's arguments)", z3.BoolVal(bool(ok)))
    if ok:
        E.oblige("post:written-at-cursor", G.o32(dst.off) == n0)
        if size is None:
            E.oblige("post:formats-in-full", z3.BoolVal(True))
        else:
            sz = size if z3.is_expr(size) else z3.BitVecVal(size, 64)
            sz = z3.ZeroExt(64 - sz.size(), sz) if sz.size() < 64 else sz
            E.oblige("post:formats-in-full", z3.ULT(z3.ZeroExt(32, L), sz))
    E.oblige("post:n-advanced", it.load(LV(ctx, T.field("BpJsonFormatContext", "n")[0], I32)) == n0 + L)
    E.oblige("post:va_end", z3.BoolVal(len(ended) == 1 and ended[0] is started[0][0] if started else False))
