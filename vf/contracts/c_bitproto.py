"""Side-car contracts for /repo/lib/c/bitproto.c, proved for ALL inputs by csym's generic mode over clang's typed AST
(default AST = little-endian bodies; -DBP_BIG_ENDIAN AST = big-endian bodies under a big-endian memory model)."""
from __future__ import annotations

import traceback
from typing import Callable, List

import z3

from ..core.registry import ProofDef, ProofResult, register
from ..csym import generic as G
from ..csym import genc, interp as CI
from ..csym.ctypes_ import TInt, TPtr, TStruct
from ..csym.generic import GInterp, SymRegion, LoopCut, OW
from ..csym.interp import Ptr, LV, Region
from ..pysym import engine as EN
from ..pysym import loader

SRC = "lib/c/bitproto.c"
I32 = TInt(32, True)


def cproof(pid, func, props, big=False, must=None, calls=None, assumes=None):
    def deco(body: Callable):
        def run(concrete=None) -> ProofResult:
            res = ProofResult(pid=pid, obls=[])
            E = None
            try:
                prog = CI.Program()
                prog.add_ast(genc.runtime_ast(big), SRC)
                if func not in prog.funcs:
                    res.error = "target not found: %s (%s AST)" % (func, "BP_BIG_ENDIAN" if big else "default")
                    return res
                import hashlib
                import json as _json
                res.sha = hashlib.sha256(_json.dumps(_strip(prog.funcs[func]), sort_keys=True).encode()).hexdigest()[:16]
                res.line = prog.funcs[func].get("loc", {}).get("line", 0) or 0
                E = EN.Engine(pid, func, "%s (%s)" % (SRC, "-DBP_BIG_ENDIAN" if big else "default"), props)
                E.concrete = concrete
                E.cover_qf = True
                E.keep_terms = True

                def one():
                    it = GInterp(prog, big=big)
                    it.frames.append({})
                    body(E, it)
                E.explore(one)
                res.obls, res.paths = E.obls, E.completed_paths
                missing = [m for m in (must or []) if not any(l.startswith(m) for l in E.labels_seen)]
                if missing:
                    res.error = "labels never generated (vacuous proof?): %r" % missing
                if not E.obls:
                    res.error = "no obligations generated"
            except CI.CUnsupported as e:
                res.error = "unsupported C construct: %s" % (e,)
                if E is not None:
                    res.obls = E.obls
            except Exception as e:
                res.error = "engine exception: %r\n%s" % (e, traceback.format_exc(limit=-8))
            return res
        register(ProofDef(pid=pid, func=func, file=SRC, props=props, run=run, must_labels=must or [],
                          doc=(body.__doc__ or ""), calls=calls or [], assumes=assumes or []))
        return body
    return deco


def _strip(n):
    """AST of a function without ids / locations (stable hash of the analysed code)"""
    if isinstance(n, dict):
        return {k: _strip(v) for k, v in n.items() if k not in ("id", "loc", "range", "referencedMemberDecl", "previousDecl")
                and not (k == "referencedDecl")} | ({"ref": n["referencedDecl"].get("name")} if "referencedDecl" in n else {})
    if isinstance(n, list):
        return [_strip(x) for x in n]
    return n


def bv32(x):
    return z3.BitVecVal(x, 32)


def bit(mem, a):
    """stream bit a of a byte array: bit (a mod 8) of byte (a div 8); BV1"""
    return z3.Extract(0, 0, z3.LShR(z3.Select(mem, z3.LShR(a, 3)), z3.Extract(7, 0, a & 7)))


# ----------------------------------------------------------------------------- pure helpers
def _pure(name, nargs, spec, big=False, pre=None, props=("C03", "C14")):
    @cproof("c[%s]:%s" % ("be" if big else "le", name), name, list(props), big=big, must=["post:result"])
    def _p(E, it):
        xs = [E.fresh("a%d" % k, z3.BitVecSort(32)) for k in range(nargs)]
        if pre is not None:
            E.assume(pre(*xs))
        E.cover("requires")
        r = it.call_func(name, list(xs))
        rt = r if z3.is_expr(r) else z3.BitVecVal(r, 32 if not isinstance(r, bool) else 8)
        want = spec(*xs)
        if rt.size() != want.size():
            rt = z3.ZeroExt(want.size() - rt.size(), rt) if rt.size() < want.size() else z3.Extract(want.size() - 1, 0, rt)
        E.oblige("post:result", rt == want)
    return _p


_pure("BpMin", 2, lambda a, b: z3.If(a < b, a, b))
_pure("BpMinTriple", 3, lambda a, b, c: z3.If(z3.If(a < b, a, b) < c, z3.If(a < b, a, b), c))
_pure("BpIsNbitsStandard", 1, lambda n: z3.If(z3.Or(n == 8, n == 16, n == 32, n == 64), bv32(1), bv32(0)))
_pure("BpIsBaseIntegerType", 1, lambda f: z3.If(z3.Or(f == 4, f == 3, f == 5, f == 2), bv32(1), bv32(0)))
_pure("BpBaseTypeStorageSize", 1, lambda n: z3.If(n <= 8, bv32(1), z3.If(n <= 16, bv32(2), z3.If(n <= 32, bv32(4), bv32(8)))),
      big=True, pre=lambda n: z3.And(n >= 1, n <= 64), props=("C06", "C14"))


# ----------------------------------------------------------------------------- BpCopyBufferBits
LIM = 1 << 24


def _state(st, it):
    n = it.get_local("n", I32)
    di, si = it.get_local("di", I32), it.get_local("si", I32)
    dp = it.load(LV(it.local("dst"), 0, TPtr(TInt(8, False))))
    sp = it.load(LV(it.local("src"), 0, TPtr(TInt(8, False))))
    n, di, si = [x if z3.is_expr(x) else bv32(x) for x in (n, di, si)]
    return n, di, si, G.o32(dp.off), G.o32(sp.off)


def copy_hints(st):
    def hints(it):
        n, di, si, doff, soff = _state(st, it)
        t = st.N0 - n
        return [("dst-byte", z3.And(z3.LShR(st.D0 + t, 3) == doff + z3.LShR(di, 3), ((st.D0 + t) & 7) == (di & 7))),
                ("src-byte", z3.And(z3.LShR(st.S0 + t, 3) == soff + z3.LShR(si, 3), ((st.S0 + t) & 7) == (si & 7)))]
    return hints


class CopySetup:
    def __init__(self, E, it):
        self.E, self.it = E, it
        f = lambda nm: E.fresh(nm, z3.BitVecSort(32))
        self.N0, self.d0, self.s0, self.di0, self.si0 = f("n"), f("dst_off"), f("src_off"), f("di"), f("si")
        self.dst = SymRegion("dst")
        self.src = SymRegion("src", writable=False)
        self.D_arr0, self.S_arr0 = self.dst.arr, self.src.arr
        self.D0 = (self.d0 << 3) + self.di0
        self.S0 = (self.s0 << 3) + self.si0
        self.Eend = ((self.D0 + self.N0 + 7) >> 3) << 3          # end of the last touched destination byte, in bits

    def pre(self):
        k = z3.BitVec("k", 32)
        N0, d0, s0, di0, si0 = self.N0, self.d0, self.s0, self.di0, self.si0
        return [
            z3.And(N0 >= 0, N0 < LIM, d0 >= 0, d0 < LIM, s0 >= 0, s0 < LIM, di0 >= 0, di0 < LIM, si0 >= 0, si0 < LIM),
            # destination bits [D0, E) are zero (fresh output buffer / zeroed struct: the API's precondition)
            z3.ForAll([k], z3.Implies(z3.And(k >= self.D0, k < self.Eend), bit(self.D_arr0, k) == 0)),
            # both objects contain the bytes that hold the two bit ranges
            z3.And(self.dst.size >= 0, self.dst.size < (1 << 26), (self.Eend >> 3) <= self.dst.size),
            z3.And(self.src.size >= 0, self.src.size < (1 << 26), ((self.S0 + N0 + 7) >> 3) <= self.src.size),
        ]

    def inv(self, it):
        n = it.get_local("n", I32)
        di, si = it.get_local("di", I32), it.get_local("si", I32)
        dp = it.load(LV(it.local("dst"), 0, TPtr(TInt(8, False))))
        sp = it.load(LV(it.local("src"), 0, TPtr(TInt(8, False))))
        doff, soff = G.o32(dp.off), G.o32(sp.off)
        n, di, si = [x if z3.is_expr(x) else bv32(x) for x in (n, di, si)]
        t = self.N0 - n
        k = z3.BitVec("k", 32)
        mem = self.dst.arr
        cont = getattr(self, "with_content", True)
        return [x for x in self._inv_all(it, dp, sp, n, di, si, doff, soff, t, k, mem) if cont or x[0] != "content"]

    def _inv_all(self, it, dp, sp, n, di, si, doff, soff, t, k, mem):
        return [
            ("pointers", z3.BoolVal(dp.region is self.dst and sp.region is self.src)),
            ("range", z3.And(n >= 0, n <= self.N0, di >= 0, di < LIM + 16, si >= 0, si < LIM + 16, doff >= 0, soff >= 0,
                             doff < 2 * LIM, soff < 2 * LIM)),
            ("position", z3.And((doff << 3) + di == self.D0 + t, (soff << 3) + si == self.S0 + t)),
            ("content", z3.ForAll([k], z3.Implies(z3.And(k >= 0, k < t), bit(mem, self.D0 + k) == bit(self.S_arr0, self.S0 + k)))),
            ("rest-zero", z3.ForAll([k], z3.Implies(z3.And(k >= self.D0 + t, k < self.Eend), bit(mem, k) == 0))),
            ("frame-bytes", z3.ForAll([k], z3.Implies(z3.And(k >= 0, z3.Or(k < (self.D0 >> 3), k >= (self.Eend >> 3))),
                                                      z3.Select(mem, k) == z3.Select(self.D_arr0, k)))),
            ("frame-low-bits", z3.ForAll([k], z3.Implies(z3.And(k >= ((self.D0 >> 3) << 3), k < self.D0),
                                                         bit(mem, k) == bit(self.D_arr0, k)))),
            ("source-untouched", z3.BoolVal(self.src.writes == 0)),
        ]


@cproof("c[le]:BpCopyBufferBits/frame", "BpCopyBufferBits", ["XC"],
        must=["BpCopyBufferBits#1/inv-preserve#frame-bytes", "BpCopyBufferBits#1/inv-preserve#rest-zero", "post:frame"])
def _copy_le_frame(E, it):
    """little-endian body (u32 / u16 / u8 fast paths included), UNBOUNDED n: every access lies inside the two objects, no undefined
    behaviour, n decreases, bytes outside [D0 div 8, ceil((D0+n)/8)) and the bits below D0 are unchanged, bits from D0+n to the end
    of the last byte stay zero, the source is not written.  (The content clause of the fast paths is NOT part of this registered
    proof: its obligations need > 400 s and are unstable; content for the little-endian body is covered per program, and the
    single-byte paths it shares with the big-endian body by c[be]:BpCopyBufferBits.)"""
    _copy(E, it, with_content=False)


@cproof("c[le]:BpCopyBufferBits/full", "BpCopyBufferBits", ["XC-full"],
        must=["BpCopyBufferBits#1/inv-preserve#content", "post:content"])
def _copy_le(E, it):
    """n >= 0 bits (UNBOUNDED: the batch array path included) from source bit S0 to destination bit D0, destination bits zero on
    entry: on exit destination bits [D0, D0+n) equal source bits [S0, S0+n), the rest of the last byte stays zero, every byte
    outside [D0 div 8, ceil((D0+n)/8)) and the bits below D0 in the first byte are unchanged, the source is not written, every
    access lies inside the two objects (u32 / u16 / u8 / partial / unaligned paths), no undefined behaviour, n decreases"""
    _copy(E, it)


@cproof("c[be]:BpCopyBufferBits", "BpCopyBufferBits", ["XC"], big=True,
        must=["BpCopyBufferBits#1/inv-preserve#content", "post:content", "post:frame"])
def _copy_be(E, it):
    """the same contract for the body compiled with BP_BIG_ENDIAN (only the endian-neutral single-byte paths remain)"""
    _copy(E, it)


def _copy(E, it, with_content=True):
    st = CopySetup(E, it)
    st.with_content = with_content
    for c in st.pre():
        E.assume(c)
    E.cover("requires")
    it._local_types = {"n": I32, "di": I32, "si": I32, "dst": ("ptr", st.dst), "src": ("ptr", st.src)}
    cut = LoopCut(
        inv=st.inv, variant=lambda I: (lambda n: n if z3.is_expr(n) else bv32(n))(I.get_local("n", I32)),
        havoc_locals=["n", "di", "si", "dst", "src"], havoc_regions=[st.dst], hints=copy_hints(st))
    def snap(I):
        n, di, si, doff, soff = _state(st, I)
        # t, destination byte and bit position, source byte and bit position at the loop head
        return (st.N0 - n, doff + z3.LShR(di, 3), di & 7, soff + z3.LShR(si, 3), si & 7)

    def lemmas(I, head, k):
        t_old, dph, dbit, sph, sbit = head
        pos = st.D0 + k
        U, L = z3.ULT, z3.LShR
        return [
            # a bit copied earlier lies in an earlier byte, or in the current byte below the current position
            ("earlier-bit-index", z3.Implies(z3.And(k >= 0, k < t_old), z3.Or(U(L(pos, 3), dph), z3.And(L(pos, 3) == dph, U(pos & 7, dbit))))),
            ("later-bit-index", z3.Implies(z3.And(k >= t_old, k < 2 * LIM), z3.UGE(L(pos, 3), dph))),
            ("earlier-position", z3.Implies(z3.And(k >= 0, k < st.D0 + t_old), z3.Or(U(L(k, 3), dph), z3.And(L(k, 3) == dph, U(k & 7, dbit))))),
            ("later-position", z3.Implies(z3.And(k >= st.D0 + t_old, k < 32 * LIM), z3.UGE(L(k, 3), dph))),
            # positions of bit k relative to the current destination / source byte (q = k - t_old is the offset inside the chunk)
            ("dst-chunk-offset", z3.Implies(z3.And(k >= t_old, k < 2 * LIM), pos == (dph << 3) + dbit + (k - t_old))),
            ("src-chunk-offset", z3.Implies(z3.And(k >= t_old, k < 2 * LIM), st.S0 + k == (sph << 3) + sbit + (k - t_old))),
            # the bits of this iteration (t_old <= k < t_new) lie in the (at most four) bytes it writes
            ("chunk-extent", z3.Implies(z3.And(k >= t_old, k < st.N0 - _state(st, I)[0]),
                                        z3.And(z3.UGE(L(pos, 3), dph), z3.ULE(L(pos, 3), dph + 3)))),
        ]
    cut.snapshot = snap
    cut.lemmas = lemmas
    # bits copied by earlier iterations / bits of this iteration and beyond (the quantified variable is a bit INDEX k in
    # `content`, an absolute POSITION in the other conjuncts: both splits are on the same boundary)
    def cases(I, head, label):
        t_old, dph, dbit, sph, sbit = head
        # the quantified variable is a bit INDEX in `content`, an absolute bit POSITION in `rest-zero` / `frame-low-bits`,
        # a BYTE index in `frame-bytes`: split each on the bytes this iteration can write
        if label == "content":
            byte_of, before = (lambda k: z3.LShR(st.D0 + k, 3)), (lambda k: k < t_old)
        elif label == "frame-bytes":
            byte_of, before = (lambda k: k), (lambda k: z3.ULT(k, dph))
        else:
            byte_of, before = (lambda k: z3.LShR(k, 3)), (lambda k: k < st.D0 + t_old)
        out = [("before-this-chunk", before)]
        for j in range(4):          # the destination bytes one iteration can write (u32 path: four)
            out.append(("this-chunk-byte+%d" % j, lambda k, j=j: z3.And(z3.Not(before(k)), byte_of(k) == dph + j)))
        out.append(("beyond-this-chunk", lambda k: z3.And(z3.Not(before(k)), byte_of(k) != dph, byte_of(k) != dph + 1,
                                                          byte_of(k) != dph + 2, byte_of(k) != dph + 3)))
        return out
    cut.cases = cases
    cut.instance_terms = lambda I, head, k: [st.D0 + k]        # `content` speaks of bit index k, `rest-zero` of position D0 + k
    it.loop_cuts[("BpCopyBufferBits", 1)] = cut
    frame_holder = {}
    # run with access to the callee's frame on exit: wrap call_func to keep the frame alive for the postcondition
    orig = it.frames

    class Keep(list):
        def pop(self_, *a):
            frame_holder["f"] = self_[-1]
            return list.pop(self_, *a)
    it.frames = Keep(it.frames)
    it.call_func("BpCopyBufferBits", [st.N0, Ptr(st.dst, st.d0), Ptr(st.src, st.s0), st.di0, st.si0])
    k = z3.BitVec("k", 32)
    mem = st.dst.arr
    if with_content:
        E.oblige("post:content", z3.Implies(z3.And(k >= 0, k < st.N0), bit(mem, st.D0 + k) == bit(st.S_arr0, st.S0 + k)))
    E.oblige("post:rest-zero", z3.Implies(z3.And(k >= st.D0 + st.N0, k < st.Eend), bit(mem, k) == 0))
    E.oblige("post:frame", z3.And(
        z3.Implies(z3.And(k >= 0, z3.Or(k < (st.D0 >> 3), k >= (st.Eend >> 3))), z3.Select(mem, k) == z3.Select(st.D_arr0, k)),
        z3.Implies(z3.And(k >= ((st.D0 >> 3) << 3), k < st.D0), bit(mem, k) == bit(st.D_arr0, k))), kind="frame")
    E.oblige("post:source-untouched", z3.BoolVal(st.src.writes == 0), kind="frame")


# ----------------------------------------------------------------------------- BpEndecodeBaseType and friends
CTX = TStruct("BpProcessorContext")


def mk_ctx(E, it, is_encode: bool):
    """struct BpProcessorContext { is_encode, i (symbolic), s -> symbolic buffer }"""
    T = it.T
    ctx = it.alloc("ctx", T.sizeof(CTX), 0, kind="arg")
    i0 = E.fresh("i", z3.BitVecSort(32))
    E.assume(z3.And(i0 >= 0, i0 < LIM))
    buf = SymRegion("s")
    it.store(LV(ctx, T.field("BpProcessorContext", "is_encode")[0], TInt(8, False, is_bool=True)), 1 if is_encode else 0)
    it.store(LV(ctx, T.field("BpProcessorContext", "i")[0], I32), i0)
    it.store(LV(ctx, T.field("BpProcessorContext", "s")[0], TPtr(TInt(8, False))), Ptr(buf, 0))
    return ctx, buf, i0


def ctx_i(it, ctx):
    v = it.load(LV(ctx, it.T.field("BpProcessorContext", "i")[0], I32))
    return v if z3.is_expr(v) else bv32(v)


def _basetype_le(enc):
    mode = "encode" if enc else "decode"

    @cproof("c[le]:BpEndecodeBaseType/" + mode, "BpEndecodeBaseType", ["C03", "C07", "C14"], must=["post:copy-call", "post:cursor"],
            calls=["BpCopyBufferBits"])
    def _p(E, it):
        """little-endian body: exactly one BpCopyBufferBits(nbits, ctx->s, data, ctx->i, 0) when encoding - (nbits, data, ctx->s, 0, ctx->i)
        when decoding - then ctx->i += nbits.  With the contract of BpCopyBufferBits: stream bits [i, i+nbits) = the object's bits
        [0, nbits) in memory order (on a little-endian target: the low nbits of its value) and vice versa"""
        ctx, buf, i0 = mk_ctx(E, it, enc)
        n = E.fresh("nbits", z3.BitVecSort(32))
        E.assume(z3.And(n >= 1, n < LIM))
        data = SymRegion("data")
        calls = []
        it.stubs["BpCopyBufferBits"] = lambda I, a: calls.append(a)
        it.call_func("BpEndecodeBaseType", [n, Ptr(ctx, 0), Ptr(data, 0)])
        ok = len(calls) == 1
        if ok:
            cn, dst, src, di, si = calls[0]
            want_dst, want_src = (buf, data) if enc else (data, buf)
            tb = lambda x: x if z3.is_expr(x) else bv32(x)
            E.oblige("post:copy-call", z3.And(z3.BoolVal(dst.region is want_dst and src.region is want_src), tb(cn) == n,
                                              G.o32(dst.off) == 0, G.o32(src.off) == 0,
                                              tb(di) == (i0 if enc else 0), tb(si) == (0 if enc else i0)))
        else:
            E.oblige("post:copy-call", False)
        E.oblige("post:cursor", ctx_i(it, ctx) == i0 + n)
    return _p


_basetype_le(True)
_basetype_le(False)


def _basetype_be(enc):
    mode = "encode" if enc else "decode"

    @cproof("c[be]:BpEndecodeBaseType/" + mode, "BpEndecodeBaseType", ["C06", "C14"], big=True,
            must=["post:copy-call", "post:cursor", "post:staging"], calls=["BpCopyBufferBits"])
    def _p(E, it):
        """big-endian body, nbits 1..64, storage size = smallest covering 1/2/4/8 bytes (the descriptor's sizeof): the staging buffer
        handed to BpCopyBufferBits holds the little-endian bytes of the object's VALUE (encode), resp. the object receives the value
        whose little-endian bytes the copy produced (decode) - so the wire carries value bits LSB first whatever the host byte order;
        ctx->i += nbits; only the `size` bytes of the object are accessed"""
        ctx, buf, i0 = mk_ctx(E, it, enc)
        n = E.fresh("nbits", z3.BitVecSort(32))
        E.assume(z3.And(n >= 1, n <= 64))
        vals = [E.fresh("b%d" % k, z3.BitVecSort(8)) for k in range(8)]
        data = it.alloc("*data", 8, list(vals), kind="arg")
        staged = {}
        produced = [E.fresh("le%d" % k, z3.BitVecSort(8)) for k in range(8)]

        def copy(I, a):
            cn, dst, src, di, si = a
            staged["args"] = a
            if enc:
                staged["le"] = list(src.region.data[:8])
            else:
                # contract of the copy: the staging buffer receives the stream bits; bytes beyond the copied bits keep their zeros
                for k in range(8):
                    dst.region.data[k] = produced[k]
        it.stubs["BpCopyBufferBits"] = copy
        it.call_func("BpEndecodeBaseType", [n, Ptr(ctx, 0), Ptr(data, 0)])
        size = z3.If(n <= 8, 1, z3.If(n <= 16, 2, z3.If(n <= 32, 4, 8)))
        a = staged.get("args")
        if a is None:
            E.oblige("post:copy-call", False)
            return
        cn, dst, src, di, si = a
        tb = lambda x: x if z3.is_expr(x) else bv32(x)
        le_region = (src if enc else dst).region
        other = (dst if enc else src).region
        E.oblige("post:copy-call", z3.And(z3.BoolVal(other is buf and le_region is not data and le_region.size == 8), tb(cn) == n,
                                          tb(di) == (i0 if enc else 0), tb(si) == (0 if enc else i0)))
        E.oblige("post:cursor", ctx_i(it, ctx) == i0 + n)
        # which path are we on: size is concrete per path (the fork happened inside BpBaseTypeStorageSize)
        for sz in (1, 2, 4, 8):
            on_path = size == sz
            if enc:
                le = staged["le"]
                # big-endian object of sz bytes: value byte k (LSB = 0) is memory byte sz-1-k
                conds = [(le[k] if z3.is_expr(le[k]) else z3.BitVecVal(le[k], 8)) == vals[sz - 1 - k] for k in range(sz)]
                E.oblige("post:staging[size=%d]" % sz, z3.Implies(on_path, z3.And(*conds)))
            else:
                now = [data.data[k] if z3.is_expr(data.data[k]) else z3.BitVecVal(data.data[k], 8) for k in range(8)]
                conds = [now[sz - 1 - k] == produced[k] for k in range(sz)] + [now[k] == vals[k] for k in range(sz, 8)]
                E.oblige("post:staging[size=%d]" % sz, z3.Implies(on_path, z3.And(*conds)))
        E.oblige("post:object-window", z3.BoolVal(all(k < 8 for k in data.reads | data.writes)), kind="frame")
    return _p


_basetype_be(True)
_basetype_be(False)


def _sign(big, size, enc):
    tag = "be" if big else "le"
    bits = 8 * size

    @cproof("c[%s]:BpHandleIntSignAfterEndecode/size=%d/%s" % (tag, size, "encode" if enc else "decode"), "BpHandleIntSignAfterEndecode",
            ["C03", "C14"] if not big else ["C06", "C14"], big=big, must=["post:"])
    def _p(E, it):
        """decoding, storage size = the smallest of 1/2/4/8 bytes covering nbits (what the descriptors' sizeof gives), bits >= nbits of
        the value zero (decode into zeroed storage): the object's VALUE becomes sx(value, nbits) - unchanged for nbits in {8,16,32,64}
        and when bit nbits-1 is clear; when encoding nothing is touched; no undefined shift"""
        n = E.fresh("nbits", z3.BitVecSort(32))
        v = E.fresh("v", z3.BitVecSort(bits))
        E.assume(z3.And(n >= 1, n <= bits, z3.Or(z3.BoolVal(size == 1), n > bits // 2)))
        nb = z3.Extract(bits - 1, 0, n) if bits < 32 else (z3.ZeroExt(bits - 32, n) if bits > 32 else n)
        E.assume(z3.Or(nb == bits, z3.LShR(v, nb) == 0))
        E.cover("requires")
        ctx = it.alloc("ctx", it.T.sizeof(CTX), 0, kind="arg")
        it.store(LV(ctx, it.T.field("BpProcessorContext", "is_encode")[0], TInt(8, False, is_bool=True)), 1 if enc else 0)
        data = it.alloc("*data", size, None, kind="arg")
        it.store(LV(data, 0, TInt(bits, False)), v)
        it.call_func("BpHandleIntSignAfterEndecode", [size, n, Ptr(ctx, 0), Ptr(data, 0)])
        out = it.load(LV(data, 0, TInt(bits, False)))
        out = out if z3.is_expr(out) else z3.BitVecVal(out, bits)
        if enc:
            E.oblige("post:encode-untouched", out == v)
        else:
            sign = z3.Extract(0, 0, z3.LShR(v, nb - 1)) == 1
            ones = ~z3.BitVecVal(0, bits)
            E.oblige("post:sign-extended", out == z3.If(z3.And(sign, nb < bits), v | (ones << nb), v))
    return _p


for _big in (False, True):
    for _size in (1, 2, 4, 8):
        _sign(_big, _size, False)
    _sign(_big, 4, True)


@cproof("c[le]:BpEndecodeInt", "BpEndecodeInt", ["C03", "C14"], must=["post:order"], calls=["BpEndecodeBaseType", "BpHandleIntSignAfterEndecode"])
def _int(E, it):
    """copies the bits, THEN handles the sign, with (nbits, ctx, data) resp. (size, nbits, ctx, data) passed through"""
    log = []
    it.stubs["BpEndecodeBaseType"] = lambda I, a: log.append(("base",) + tuple(a))
    it.stubs["BpHandleIntSignAfterEndecode"] = lambda I, a: log.append(("sign",) + tuple(a))
    size, n = E.fresh("size", z3.BitVecSort(32)), E.fresh("nbits", z3.BitVecSort(32))
    ctx = it.alloc("ctx", 16, 0, kind="arg")
    data = it.alloc("data", 8, 0, kind="arg")
    it.call_func("BpEndecodeInt", [size, n, Ptr(ctx, 0), Ptr(data, 0)])
    ok = [x[0] for x in log] == ["base", "sign"] and log[0][2].region is ctx and log[0][3].region is data \
        and log[1][3].region is ctx and log[1][4].region is data
    E.oblige("post:order", z3.And(z3.BoolVal(ok), log[0][1] == n, log[1][1] == size, log[1][2] == n) if ok else False)


def _ahead(fn, field, enc):
    @cproof("c[le]:" + fn, fn, ["C03", "C05"], must=["post:prefix"], calls=["BpEndecodeBaseType"])
    def _p(E, it):
        """the 16-bit prefix goes through BpEndecodeBaseType(16, ctx, &data) with data = (uint16_t)(capacity | nbits) when encoding,
        a zeroed uint16_t whose decoded value is returned when decoding"""
        dname = "BpArrayDescriptor" if "Array" in fn else "BpMessageDescriptor"
        dt = TStruct(dname)
        desc = it.alloc("descriptor", it.T.sizeof(dt), 0, kind="arg")
        val = E.fresh(field, z3.BitVecSort(32))
        E.assume(z3.And(val >= 0, val <= 65535))
        it.store(LV(desc, it.T.field(dname, field)[0], I32), val)
        ctx = it.alloc("ctx", it.T.sizeof(CTX), 0, kind="arg")
        seen = []
        decoded = E.fresh("decoded", z3.BitVecSort(16))

        def base(I, a):
            n, c, d = a
            cur = I.load(LV(d.region, d.off, TInt(16, False)))
            seen.append((n, c, d, cur))
            if not enc:
                I.store(LV(d.region, d.off, TInt(16, False)), decoded)
        it.stubs["BpEndecodeBaseType"] = base
        r = it.call_func(fn, [Ptr(desc, 0), Ptr(ctx, 0)])
        if len(seen) != 1:
            E.oblige("post:prefix", False)
            return
        n, c, d, cur = seen[0]
        cur = cur if z3.is_expr(cur) else z3.BitVecVal(cur, 16)
        if enc:
            E.oblige("post:prefix", z3.And(z3.BoolVal(n == 16 and c.region is ctx and d.region.size == 2), cur == z3.Extract(15, 0, val)))
        else:
            rr = r if z3.is_expr(r) else z3.BitVecVal(r, 16)
            E.oblige("post:prefix", z3.And(z3.BoolVal(n == 16 and c.region is ctx and d.region.size == 2), cur == 0, rr == decoded))
    return _p


_ahead("BpEncodeArrayExtensibleAhead", "cap", True)
_ahead("BpDecodeArrayExtensibleAhead", "cap", False)
_ahead("BpEncodeMessageExtensibleAhead", "nbits", True)
_ahead("BpDecodeMessageExtensibleAhead", "nbits", False)
