"""C09 (rendering half), per program: every template schema is parsed and rendered for every language / mode by the real compiler;
nothing but success may come out (a bitproto error on a valid template, or an internal exception, fails an obligation)."""
from __future__ import annotations

import traceback

import z3

from ..core.registry import ProofDef, ProofResult, register
from ..pysym import engine as EN
from ..spec import layout as L
from ..templates import build, family
from .gen_c import traditional

MODES = [("py", False), ("c", False), ("c", True), ("go", False), ("go", True)]


def _mk(u: family.Unit):
    pid = "gen-all:compile:" + u.name

    def run(concrete=None) -> ProofResult:
        res = ProofResult(pid=pid, obls=[])
        E = EN.Engine(pid, "parse + render of " + u.schema.fname(), "compiler/bitproto/renderer/renderer.py", ["C09"], scope="program")

        def body():
            import bitproto.errors as ER
            for lang, opt in MODES:
                schema = u.schema
                if opt:
                    schema, msgs = traditional(u)
                    if not msgs:
                        continue
                tag = "%s%s" % (lang, "-O" if opt else "")
                try:
                    outs = build.compile_schema(schema, lang, optimize=opt)
                    E.oblige("compile[%s]/no-internal-exception" % tag, True, kind="no-exception")
                    E.oblige("compile[%s]/accepted-and-rendered" % tag, z3.BoolVal(bool(outs) and all(outs.values())))
                except ER.Error as e:
                    E.oblige("compile[%s]/accepted-and-rendered (%s)" % (tag, type(e).__name__), False)
                except Exception as e:
                    E.notes.append("%s: %r" % (tag, e))
                    E.oblige("compile[%s]/no-internal-exception (%s)" % (tag, type(e).__name__), False, kind="no-exception",
                             meta={"schema_text": L.to_text(schema), "traceback": traceback.format_exc(limit=-4)})
        try:
            E.explore(body)
            res.obls, res.paths, res.notes = E.obls, E.completed_paths, E.notes
        except Exception as e:
            res.error = "engine exception: %r\n%s" % (e, traceback.format_exc(limit=-6))
        return res

    p = ProofDef(pid=pid, func="parse + render (py, c, c -O, go, go -O)", file="compiler/bitproto/renderer/renderer.py",
                 props=["C09"], run=run, scope="program", doc="an accepted template renders in every language / mode")
    p.tier = u.tier
    register(p)


_quick = set(family.kind_tags("quick"))
for _t in family.kind_tags("thorough"):
    _u = family.leaf_unit(_t)
    _u.tier = "quick" if _t in _quick else "thorough"
    _mk(_u)
for _u in family.composite_units():
    _mk(_u)
for _name, _schema, _top, _vmap in family.rewrite_variants():
    _mk(family.Unit("rewrite:" + _name, _schema, [_top], tags=("rewrite", "traditional")))
# degenerate but accepted schemas
_ee = L.Enum("Nothing", 3, [])
_em = L.Message("M", [L.Field("e", 1, _ee), L.Field("es", 2, L.Array(_ee, 2)), L.Field("t", 3, L.Uint(5))])
_mk(family.Unit("degenerate:empty-enum", L.Schema("t_ee", [_ee, _em]), [_em], tags=("traditional",)))
_mk(family.Unit("degenerate:empty-proto", L.Schema("t_empty", []), [], tags=("traditional",)))
