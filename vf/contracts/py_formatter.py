"""Side-car contracts for the optimization-mode plan generator in compiler/bitproto/renderer/formatter.py (C04, C14, C12).

The language hooks (format_op_mode_encoder_item / decoder_item, chain formatters, post_format hook) are stubs that record
their arguments; what the emitted TEXT of one item means in C / Go is established per program (gen_c / gen_go)."""
from __future__ import annotations

import traceback
from typing import Callable, List

import z3

from ..core.registry import ProofDef, ProofResult, register
from ..pysym import engine as EN
from ..pysym import loader
from ..pysym.loops import LoopVC, LoopSpec
from ..pysym.proxies import SymInt, SymBool, wrap, lift, sym_int, sym_min, sym_isinstance, sym_len
from ..spec.bits import bv, pow2, min3
from .py_ast import ast_module
from .py_bp_struct import psum, wf

FMT = "compiler/bitproto/renderer/formatter.py"
SH = dict(int=sym_int, min=sym_min, isinstance=sym_isinstance, len=sym_len)


def fproof(pid, func, props, cuts=None, must=None, calls=None, assumes=None):
    def deco(body: Callable):
        def run(concrete=None) -> ProofResult:
            res = ProofResult(pid=pid, obls=[])
            E = None
            try:
                src = loader.read_src(FMT)
                seg, line = loader.func_source(src, func)
                res.sha, res.line = loader.func_sha(src, func), line
                E = EN.Engine(pid, func, "%s:%d" % (FMT, line), props, srcfile=loader.os.path.join(loader.REPO, FMT))
                E.concrete = concrete
                with ast_module() as A:
                    vc = LoopVC({})
                    mod, info = loader.load(FMT, "bitproto.renderer.formatter_cut", shadows=SH, cuts=cuts or {}, vc=vc,
                                            package="bitproto.renderer")
                    res.cut_loops = info
                    E.explore(lambda: body(E, mod, A, vc))
                res.obls, res.paths = E.obls, E.completed_paths
                missing = [m for m in (must or []) if not any(l.startswith(m) for l in E.labels_seen)]
                if missing:
                    res.error = "labels never generated (vacuous proof?): %r" % missing
                if not E.obls:
                    res.error = "no obligations generated"
            except KeyError as e:
                res.error = "target not found: %r" % (e,)
            except EN.Unsupported as e:
                res.error = "unsupported construct: %s" % (e,)
                if E is not None:
                    res.obls = E.obls
            except Exception as e:
                res.error = "engine exception: %r\n%s" % (e, traceback.format_exc(limit=-6))
            return res
        register(ProofDef(pid=pid, func=func, file=FMT, props=props, run=run, must_labels=must or [],
                          doc=(body.__doc__ or ""), calls=calls or [], assumes=assumes or []))
        return body
    return deco


def mk_formatter(mod, hooks):
    """a concrete Formatter subclass whose language hooks are recording stubs"""
    ns = {}
    for name, fn in hooks.items():
        ns[name] = fn
    # abstract methods are not enforced at instantiation (Formatter is a plain class); define the hooks we need
    cls = type("StubFormatter", (mod.Formatter,), ns)
    return cls.__new__(cls)


# ----------------------------------------------------------------------------- mask and one item
@fproof("py:formatter.op_mode_get_mask", "Formatter.op_mode_get_mask", ["C04", "C14"], must=["post:result"])
def _mask(E, mod, A, vc):
    """0<=k<=7, 0<=c<=8, k+c<=8  ==>  2^(k+c) - 2^k"""
    k, c = E.fresh("k"), E.fresh("c")
    E.assume(z3.And(k >= 0, k <= 7, c >= 0, c <= 8, k + c <= 8))
    E.cover("requires")
    f = mk_formatter(mod, {})
    r = f.op_mode_get_mask(SymInt(k), SymInt(c))
    E.oblige("post:result", lift(r) == pow2(k + c) - pow2(k))


def _single_byte(enc):
    name = "format_op_mode_%s_single_byte" % ("encode" if enc else "decode")

    @fproof("py:formatter." + name, "Formatter." + name, ["C04", "C14"], must=["post:item"], calls=["Formatter.op_mode_get_mask",
            "Formatter.format_op_mode_%s_item" % ("encoder" if enc else "decoder")])
    def _p(E, mod, A, vc):
        """the language hook receives  si = i div 8 (buffer byte), fi = j div 8 (field byte), r = position inside the produced
        byte, mask = (2^c - 1) << r, shift = the distance between the two positions - encode: r = i mod 8, shift = j mod 8 - i mod 8;
        decode: r = j mod 8, shift = i mod 8 - j mod 8"""
        i, j, c = E.fresh("i"), E.fresh("j"), E.fresh("c")
        E.assume(z3.And(i >= 0, i < (1 << 40), j >= 0, j <= 63, c >= 1, c <= 8,
                        z3.URem(i, bv(8)) + c <= 8, z3.URem(j, bv(8)) + c <= 8))
        E.cover("requires")
        rec = []
        t, chain = object(), "m.x"

        def item(self, chain_, t_, si, fi, shift, mask, r):
            rec.append((chain_, t_, si, fi, shift, mask, r))
            return "ITEM"
        f = mk_formatter(mod, {"format_op_mode_encoder_item" if enc else "format_op_mode_decoder_item": item})
        res = getattr(f, name)(t, chain, SymInt(i), SymInt(j), SymInt(c))
        ok = len(rec) == 1 and res == "ITEM" and rec[0][0] is chain and rec[0][1] is t
        if not ok:
            E.oblige("post:item", False)
            return
        _, _, si, fi, shift, mask, r = rec[0]
        im, jm = z3.URem(i, bv(8)), z3.URem(j, bv(8))
        pos = im if enc else jm
        E.oblige("post:item", z3.And(lift(si) == z3.UDiv(i, bv(8)), lift(fi) == z3.UDiv(j, bv(8)), lift(r) == pos,
                                     lift(mask) == (pow2(c) - 1) << pos,
                                     lift(shift) == ((jm - im) if enc else (im - jm))))
    return _p


_single_byte(True)
_single_byte(False)


# ----------------------------------------------------------------------------- single type (loop)
class SingleTypeLoop(LoopSpec):
    def bind(self, ilist, i0, n, rec, l):
        self.ilist, self.i0, self.n, self.rec = ilist, i0, n, rec

    def havoc_heap(self, loc):
        self.ilist[0] = wrap(EN.cur().fresh("i[0]"))
        del self.rec[:]
        del loc["l"][:]          # the statements produced so far are abstracted away; this iteration must append exactly one

    def inv(self, loc):
        j = lift(loc["j"])
        return [("range", z3.And(j >= 0, j <= self.n)),
                ("cursor", lift(self.ilist[0]) == self.i0 + j)]

    def variant(self, loc):
        return self.n - lift(loc["j"])


def _single_type(enc):
    mode = "encode" if enc else "decode"

    @fproof("py:formatter.format_op_mode_endecode_single_type/" + mode, "Formatter.format_op_mode_endecode_single_type",
            ["C04", "C14"], cuts={("Formatter.format_op_mode_endecode_single_type", 1): "loop1"},
            must=["post:cursor", "loop1/inv-preserve#cursor", "post:chunk"],
            calls=["Formatter.format_op_mode_encode_single_byte", "Formatter.format_op_mode_decode_single_byte",
                   "Formatter.post_format_op_mode_endecode_single_type"])
    def _p(E, mod, A, vc):
        """a field of n bits (1..64) starting at stream bit i0 is covered by consecutive chunks: the k-th single-byte call gets
        (i0 + j, j, c) with c = min(8 - i mod 8, 8 - j mod 8, n - j) >= 1, so every chunk lies inside one byte on both sides,
        chunks are contiguous and in order, and i[0] = i0 + n on exit; the post hook is called once with (t, chain, is_encode);
        encoding never calls the decode hook and vice versa"""
        n, i0 = E.fresh("n"), E.fresh("i0")
        E.assume(z3.And(n >= 1, n <= 64, i0 >= 0, i0 < (1 << 40)))
        E.cover("requires")
        rec, post = [], []
        chain = "m.x"

        class T:
            def nbits(self):
                return SymInt(n)
        t = T()

        def sb(kind):
            def f(self, t_, chain_, i, j, c):
                rec.append((kind, t_, chain_, i, j, c))
                return "S"
            return f

        def posthook(self, t_, chain_, is_encode):
            post.append((t_, chain_, is_encode))
            return ["POST"]
        f = mk_formatter(mod, {"format_op_mode_encode_single_byte": sb("enc"), "format_op_mode_decode_single_byte": sb("dec"),
                               "post_format_op_mode_endecode_single_type": posthook})
        ilist = [SymInt(i0)]
        sp = SingleTypeLoop()
        sp.bind(ilist, i0, n, rec, None)
        vc.specs["loop1"] = sp
        orig_back = vc.loop_back

        def loop_back(lid, loc):
            ok = len(rec) == 1 and rec[0][0] == mode[:3] and rec[0][1] is t and rec[0][2] is chain and loc["l"] == ["S"]
            if ok:
                _, _, _, ci, cj, cc = rec[0]
                j1, i1 = lift(loc["j"]), lift(ilist[0])
                jm, im = z3.URem(lift(cj), bv(8)), z3.URem(lift(ci), bv(8))
                E.oblige("post:chunk", z3.And(lift(ci) == i1 - lift(cc), lift(cj) == j1 - lift(cc),      # starts where the previous ended
                                              lift(cc) == min3(8 - im, 8 - jm, n - lift(cj)), lift(cc) >= 1,
                                              jm + lift(cc) <= 8, im + lift(cc) <= 8, lift(cj) + lift(cc) <= n))
            else:
                E.oblige("post:chunk", False)
            orig_back(lid, loc)
        vc.loop_back = loop_back
        try:
            out = f.format_op_mode_endecode_single_type(t, chain, enc, ilist)
        finally:
            vc.loop_back = orig_back
        E.oblige("post:cursor", lift(ilist[0]) == i0 + n)
        E.oblige("post:hook", z3.BoolVal(len(post) == 1 and post[0][0] is t and post[0][1] is chain and post[0][2] is enc
                                         and out[-1:] == ["POST"]))
    return _p


_single_type(True)
_single_type(False)


# ----------------------------------------------------------------------------- dispatchers
@fproof("py:formatter.format_op_mode_endecode_message_field", "Formatter.format_op_mode_endecode_message_field", ["C04", "C12"],
        must=["post:dispatch"])
def _field(E, mod, A, vc):
    """dispatches on the field type's kind with unchanged (t, chain, is_encode, i): single type (bool/byte/int/uint/enum) ->
    single_type, message -> message, array -> array, alias -> alias"""
    proto = A.Proto(name="p")
    kinds = {"single_type": [A.Bool(), A.Byte(), A.Int(cap=7), A.Uint(cap=64), A.Enum(name="E", type=A.Uint(cap=3), _bound=proto)],
             "message": [A.Message(name="M", _bound=proto)],
             "array": [A.Array(element_type=A.Byte(), cap=2)],
             "alias": [A.Alias(name="T", type=A.Uint(cap=3), _bound=proto)]}
    for enc in (True, False):
        for kind, ts in kinds.items():
            for t in ts:
                rec = []
                hooks = {"format_op_mode_endecode_" + k: (lambda self, *a, k=k: (rec.append((k,) + a), ["R"])[1]) for k in kinds}
                f = mk_formatter(mod, hooks)
                i = [0]
                out = f.format_op_mode_endecode_message_field(t, "c", enc, i)
                E.oblige("post:dispatch[%s,%s,%s]" % (kind, type(t).__name__, enc),
                         z3.BoolVal(rec == [(kind, t, "c", enc, i)] and rec[0][4] is i and out == ["R"]))


@fproof("py:formatter.format_op_mode_endecode_alias", "Formatter.format_op_mode_endecode_alias", ["C04", "C12"], must=["post:"])
def _alias(E, mod, A, vc):
    """alias of an array -> the array's statements; alias of a single type -> single_type with THE ALIAS as the type (its storage
    type is the alias), same chain / direction / cursor"""
    proto = A.Proto(name="p")
    for enc in (True, False):
        arr = A.Array(element_type=A.Byte(), cap=2)
        al_arr = A.Alias(name="R", type=arr, _bound=proto)
        al_int = A.Alias(name="T", type=A.Int(cap=24), _bound=proto)
        for al, want in ((al_arr, ("array", arr)), (al_int, ("single_type", al_int))):
            rec = []
            hooks = {"format_op_mode_endecode_" + k: (lambda self, *a, k=k: (rec.append((k,) + a), ["R"])[1])
                     for k in ("single_type", "array", "message")}
            f = mk_formatter(mod, hooks)
            i = [3]
            out = f.format_op_mode_endecode_alias(al, "c", enc, i)
            E.oblige("post:%s[%s]" % (want[0], enc), z3.BoolVal(rec == [(want[0], want[1], "c", enc, i)] and rec[0][4] is i and out == ["R"]))


class ElemStub:
    """callee contract of the per-element / per-field statement generators: appends statements and advances i[0] by the wire
    size of the type (proved for single types above, for composites by these very proofs: structural induction)"""

    def __init__(self, E, rec, width_of):
        self.E, self.rec, self.width_of = E, rec, width_of

    def __call__(self, kind):
        def f(self_, t, chain, is_encode, i):
            self.rec.append((kind, t, chain, is_encode, i, i[0]))
            i[0] = wrap(lift(i[0], z3.IntVal(0)) + self.width_of(t))
            return ["stmt"]
        return f


class ArrayLoop(LoopSpec):
    model = "int"

    def bind(self, ilist, i0, cap, w, rec):
        self.ilist, self.i0, self.cap, self.w, self.rec = ilist, i0, cap, w, rec

    def range_bound(self, b):
        return b

    def havoc_heap(self, loc):
        self.ilist[0] = wrap(EN.cur().fresh("i[0]", "int"))
        del self.rec[:]
        del loc["l"][:]

    def inv(self, loc):
        k = lift(loc["vc_i1_"], self.cap)
        return [("range", z3.And(k >= 0, k <= self.cap)), ("cursor", lift(self.ilist[0], self.cap) == self.i0 + k * self.w)]

    def variant(self, loc):
        return self.cap - lift(loc["vc_i1_"], self.cap)


def _array(kind):
    @fproof("py:formatter.format_op_mode_endecode_array/" + kind, "Formatter.format_op_mode_endecode_array", ["C04", "C14", "C12"],
            cuts={("Formatter.format_op_mode_endecode_array", 1): "loop1"},
            must=["post:cursor", "post:element", "loop1/inv-preserve#cursor"],
            calls=["Formatter.format_op_mode_endecode_single_type", "Formatter.format_op_mode_endecode_message",
                   "Formatter.format_op_mode_endecode_alias", "Formatter.format_op_mode_field_name_chain_array"])
    def _p(E, mod, A, vc):
        """elements are generated in ascending index order, element k with the chain the array-chain hook gives for (chain, k),
        through the generator for the element's kind, with the shared cursor: i[0] = i0 + cap * wire(element) on exit"""
        cap, w, i0 = E.fresh("cap", "int"), E.fresh("w", "int"), E.fresh("i0", "int")
        E.assume(z3.And(cap >= 1, cap <= 65535, w >= 0, i0 >= 0))
        E.cover("requires")
        proto = A.Proto(name="p")
        elem = {"single_type": A.Uint(cap=7), "message": A.Message(name="M", _bound=proto),
                "alias": A.Alias(name="T", type=A.Uint(cap=3), _bound=proto)}[kind]
        saved = A.Array.validate_array_cap
        A.Array.validate_array_cap = lambda self: None
        try:
            arr = A.Array(element_type=elem, cap=SymInt(cap))
        finally:
            A.Array.validate_array_cap = saved
        rec = []
        stub = ElemStub(E, rec, lambda t: w)
        hooks = {"format_op_mode_endecode_" + k: stub(k) for k in ("single_type", "message", "alias")}
        hooks["format_op_mode_field_name_chain_array"] = lambda self, chain, index: ("CHAIN", chain, index)
        f = mk_formatter(mod, hooks)
        ilist = [SymInt(i0)]
        sp = ArrayLoop()
        sp.bind(ilist, i0, cap, w, rec)
        vc.specs["loop1"] = sp
        orig_back = vc.loop_back

        def loop_back(lid, loc):
            k1 = lift(loc["vc_i1_"], cap)
            ok = len(rec) == 1 and rec[0][0] == kind and rec[0][1] is elem and rec[0][3] is True and rec[0][4] is ilist \
                and isinstance(rec[0][2], tuple) and rec[0][2][0] == "CHAIN" and rec[0][2][1] == "c" and loc["l"] == ["stmt"]
            if ok:
                E.oblige("post:element", z3.And(lift(rec[0][2][2], cap) == k1 - 1, lift(rec[0][5], cap) == i0 + (k1 - 1) * w))
            else:
                E.oblige("post:element", False)
            orig_back(lid, loc)
        vc.loop_back = loop_back
        try:
            f.format_op_mode_endecode_array(arr, "c", True, ilist)
        finally:
            vc.loop_back = orig_back
        E.oblige("post:cursor", lift(ilist[0], cap) == i0 + cap * w)
    return _p


for _k in ("single_type", "message", "alias"):
    _array(_k)


class AbsFields:
    def __init__(self, F, fields_of):
        self.F, self.fields_of = F, fields_of

    def sym_len(self):
        return wrap(self.F)

    def sym_get(self, m):
        mt = lift(m, self.F)
        EN.cur().assume(z3.And(psum(mt + 1) == psum(mt) + wf(mt), wf(mt) >= 0))
        return self.fields_of(mt)

    def __iter__(self):
        raise EN.Unsupported("iteration over the abstract field list outside the cut loop")

    def __len__(self):
        raise EN.Unsupported("len of abstract field list")

    def __bool__(self):
        return EN.cur().branch(self.F > 0)


class MessageLoop(LoopSpec):
    model = "int"

    def bind(self, ilist, i0, fl, rec):
        self.ilist, self.i0, self.fl, self.rec = ilist, i0, fl, rec

    def seq(self, it):
        return it

    def havoc_heap(self, loc):
        self.ilist[0] = wrap(EN.cur().fresh("i[0]", "int"))
        del self.rec[:]
        del loc["l"][:]

    def inv(self, loc):
        m = lift(loc["vc_i1_"], self.fl.F)
        return [("range", z3.And(m >= 0, m <= self.fl.F)), ("cursor", lift(self.ilist[0], self.fl.F) == self.i0 + psum(m))]

    def variant(self, loc):
        return self.fl.F - lift(loc["vc_i1_"], self.fl.F)


@fproof("py:formatter.format_op_mode_endecode_message", "Formatter.format_op_mode_endecode_message", ["C04", "C12", "C14"],
        cuts={("Formatter.format_op_mode_endecode_message", 1): "loop1"},
        must=["post:cursor", "post:field", "loop1/inv-preserve#cursor"],
        calls=["Message.sorted_fields", "Formatter.format_op_mode_endecode_message_field", "Formatter.format_op_mode_field_name_chain"])
def _message(E, mod, A, vc):
    """fields are generated in sorted_fields() order (ascending number), field m through message_field with its TYPE, the chain
    the field-chain hook gives for (chain, field), and the shared cursor; i[0] = i0 + sum of the fields' wire sizes on exit"""
    F, i0 = E.fresh("F", "int"), E.fresh("i0", "int")
    E.assume(z3.And(F >= 0, F <= 255, i0 >= 0, psum(0) == 0))
    E.cover("requires")
    rec = []

    class Fld:
        def __init__(self, m):
            self.m = m
            self.type = ("TYPE", m)
    fl = AbsFields(F, lambda m: Fld(m))

    class Msg:
        def sorted_fields(self):
            return fl

        def fields(self):
            # the abstract message offers its fields in field-number order only; asking for declaration order is the violation itself
            EN.cur().oblige("post:plan-follows-sorted_fields() (the generator asked for fields(): declaration order)", z3.BoolVal(False))
            raise EN.StopPath()

        def number_to_field(self):
            EN.cur().oblige("post:plan-follows-sorted_fields() (the generator asked for number_to_field())", z3.BoolVal(False))
            raise EN.StopPath()
    msg = Msg()

    def mf(self, t, chain, is_encode, i):
        rec.append((t, chain, is_encode, i, i[0]))
        i[0] = wrap(lift(i[0], F) + wf(t[1]))
        return ["stmt"]
    f = mk_formatter(mod, {"format_op_mode_endecode_message_field": mf,
                           "format_op_mode_field_name_chain": lambda self, chain, field: ("CHAIN", chain, field)})
    ilist = [SymInt(i0)]
    sp = MessageLoop()
    sp.bind(ilist, i0, fl, rec)
    vc.specs["loop1"] = sp
    orig_back = vc.loop_back

    def loop_back(lid, loc):
        m1 = lift(loc["vc_i1_"], F)
        ok = len(rec) == 1 and rec[0][2] is False and rec[0][3] is ilist and isinstance(rec[0][1], tuple) and rec[0][1][0] == "CHAIN" \
            and rec[0][1][1] == "c" and isinstance(rec[0][0], tuple) and loc["l"] == ["stmt"]
        if ok:
            E.oblige("post:field", z3.And(rec[0][0][1] == m1 - 1, rec[0][1][2].m == m1 - 1, lift(rec[0][4], F) == i0 + psum(m1 - 1)))
        else:
            E.oblige("post:field", False)
        orig_back(lid, loc)
    vc.loop_back = loop_back
    try:
        f.format_op_mode_endecode_message(msg, "c", False, ilist)
    finally:
        vc.loop_back = orig_back
    E.oblige("post:cursor", lift(ilist[0], F) == i0 + psum(F))


@fproof("py:formatter.format_op_mode_encode_message", "Formatter.format_op_mode_encode_message", ["C04"], must=["post:entry"])
def _entry(E, mod, A, vc):
    """the two entries start the message plan at stream bit 0 with the message variable as the chain; encode / decode differ
    only in the direction flag"""
    for fn, enc in (("format_op_mode_encode_message", True), ("format_op_mode_decode_message", False)):
        rec = []
        f = mk_formatter(mod, {"format_op_mode_endecode_message": lambda self, *a: (rec.append(a), ["R"])[1],
                               "format_op_mode_endecoder_message_var": lambda self: "VAR"})
        msg = object()
        out = getattr(f, fn)(msg)
        E.oblige("post:entry[%s]" % fn, z3.BoolVal(len(rec) == 1 and rec[0][0] is msg and rec[0][1] == "VAR" and rec[0][2] is enc
                                                   and rec[0][3] == [0] and out == ["R"]))


@fproof("py:formatter.get_nbits_of_integer", "Formatter.get_nbits_of_integer", ["C03", "C04", "C19"], must=["post:storage"])
def _storage(E, mod, A, vc):
    """the storage width of an n-bit integer (1..64) is the smallest of 8, 16, 32, 64 that covers it - what the C descriptors'
    sizeof, the runtimes' sign handling and the big-endian staging assume"""
    n = E.fresh("n")
    E.assume(z3.And(n >= 1, n <= 64))
    f = mk_formatter(mod, {})
    for cls in (A.Uint, A.Int):
        t = cls(cap=SymInt(n))
        r = lift(f.get_nbits_of_integer(t))
        E.oblige("post:storage[%s]" % cls.__name__, r == z3.If(n <= 8, bv(8), z3.If(n <= 16, bv(16), z3.If(n <= 32, bv(32), bv(64)))))
