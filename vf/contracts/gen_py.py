"""Per-program proofs of generated Python modules (scope 'program': all values, one generated program each;
the programs quantifier is the template family, vf/templates/family.py)."""
from __future__ import annotations

import traceback

import z3

from ..core.registry import ProofDef, ProofResult, register
from ..pysym import engine as EN
from ..pysym import genpy, loader
from ..spec import layout as L
from ..templates import build, family

RENDERER = "compiler/bitproto/renderer/impls/py/renderer.py"


def _order(schema: L.Schema):
    return [p.fname().replace(".bitproto", "_bp.py") for p in build._all_protos(schema)]


def _mk_unit(u: family.Unit):
    pid = "gen-py:" + u.name
    props = getattr(u, "props", None) or ["C01", "C02", "C07", "C12", "C14"]

    def run(concrete=None, only=None) -> ProofResult:
        res = ProofResult(pid=pid, obls=[])
        try:
            outs = build.compile_schema(u.schema, "py")
            E = EN.Engine(pid, "generated module of " + u.schema.fname(), RENDERER, list(props),
                          scope="program", srcfile=None)
            E.concrete = concrete
            state = {}

            def load():
                genpy.load_runtime()
                mods = genpy.load_generated(outs, _order(u.schema))
                return mods, mods[u.schema.fname().replace(".bitproto", "_bp")]

            for msg in u.messages:
                mname = "_".join(L._path(msg))
                if only and not only.startswith("%s/%s/" % (pid, mname)):
                    continue
                for what in ("encode", "decode", "json", "history"):
                    if what == "json" and "C16" not in props:
                        continue
                    if what == "history" and not u.name.startswith("composite:"):
                        continue
                    def body(msg=msg, what=what, mname=mname):
                        mods, mod = load()
                        cls = genpy.py_class(mod, msg)
                        E.proof_id = "%s/%s" % (pid, mname)
                        if what == "encode":
                            genpy.run_encode(E, cls, msg, mods)
                        elif what == "history":
                            genpy.run_history(E, cls, msg, mods)
                        elif what == "json":
                            genpy.run_json(E, cls, msg, mods, genpy.LAST_BP)
                            genpy.run_json_native(E, outs, _order(u.schema), u.schema.fname().replace(".bitproto", "_bp"), msg)
                        else:
                            inst, v, buf = genpy.run_decode(E, cls, msg, mods)
                            genpy.run_reencode(E, inst, msg, buf)
                    E.explore(body)
            E.proof_id = pid
            res.obls = E.obls
            res.paths = E.completed_paths
            res.notes = ["messages=%d" % len(u.messages)]
            if not E.obls:
                res.error = "no obligations generated"
        except EN.Unsupported as e:
            res.error = "unsupported construct: %s" % (e,)
        except Exception as e:
            res.error = "engine exception: %r\n%s" % (e, traceback.format_exc(limit=12))
        return res

    p = ProofDef(pid=pid, func="generated Python module (%d messages)" % len(u.messages), file=RENDERER,
                 props=list(props), run=run, scope="program",
                 doc="encode == reference layout for all values; decode(reference encoding) == value; re-encode == bytes")
    p.tier = u.tier
    register(p)


_quick = set(family.kind_tags("quick"))
for _t in family.kind_tags("thorough"):
    _u = family.leaf_unit(_t)
    _u.tier = "quick" if _t in _quick else "thorough"
    _u.props = ["C01", "C02", "C07", "C14", "C16"]
    _mk_unit(_u)
for _u in family.composite_units():
    if _u.name == "composite:enum-default-nonzero":
        _u.props = ["C02"]
    elif "composite" in _u.tags:
        _u.props = ["C01", "C02", "C07", "C12", "C16"] + (["C11"] if ("imports" in _u.tags or _u.name in ("composite:same-named-nested", "composite:deep-same-names")) else [])
    _mk_unit(_u)


# ------------------------------------------------------------------ C05: evolution pairs (S1 decodes S2's encoding)
def _mk_pair(name, s1, m1, s2, m2, project):
    pid = "gen-py:evolve:" + name

    def run(concrete=None, only=None) -> ProofResult:
        res = ProofResult(pid=pid, obls=[])
        try:
            outs = build.compile_schema(s1, "py")
            E = EN.Engine(pid, "generated module of %s (older schema) decoding the extended schema's bytes" % s1.fname(),
                          RENDERER, ["C05"], scope="program")
            E.concrete = concrete

            def body():
                genpy.load_runtime()
                mods = genpy.load_generated(outs, _order(s1))
                cls = genpy.py_class(mods[s1.fname().replace(".bitproto", "_bp")], m1)
                genpy.run_decode(E, cls, m1, mods, sender=m2, project=project, label="decode-extended")
            E.explore(body)
            res.obls, res.paths = E.obls, E.completed_paths
            if not E.obls:
                res.error = "no obligations generated"
        except EN.Unsupported as e:
            res.error = "unsupported construct: %s" % (e,)
        except Exception as e:
            res.error = "engine exception: %r\n%s" % (e, traceback.format_exc(limit=12))
        return res

    p = ProofDef(pid=pid, func="generated Python module (older schema)", file=RENDERER, props=["C05"], run=run,
                 scope="program", doc="decode of the newer schema's reference encoding yields every older-schema field")
    p.tier = "quick"
    register(p)


for _pair in family.evolution_pairs():
    _mk_pair(*_pair)


# ------------------------------------------------------------------ C12: rewrite variants (each proved against its own layout)
for _name, _schema, _top, _vmap in family.rewrite_variants():
    _u = family.Unit("rewrite:" + _name, _schema, [_top], tags=("rewrite", "traditional"))
    _u.props = ["C12"]
    _mk_unit(_u)
