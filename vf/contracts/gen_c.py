"""Per-program proofs of generated C (scope 'program'): for every template unit,
  std[le] / std[be] : standard mode = generated descriptors + the REAL runtime lib/c/bitproto.c, interpreted together
                      (default AST with a little-endian memory model; -DBP_BIG_ENDIAN AST with a big-endian one)
  opt[...]          : optimization mode output for --endian both (each preprocessor branch), little, big
Encode: arbitrary storage contents -> exactly the reference bytes; Decode: reference bytes -> the value, sign-extended.
"""
from __future__ import annotations

import traceback

import z3

from ..core.registry import ProofDef, ProofResult, register
from ..csym import genc, interp as CI
from ..pysym import engine as EN
from ..spec import layout as L
from ..templates import build, family

RUNTIME = "lib/c/bitproto.c"
RENDER_C = "compiler/bitproto/renderer/impls/c/renderer_c.py"

# variant -> (optimize, --endian, big-endian target?, property tags)
VARIANTS = {
    "std[le]": (False, "both", False, ["C03", "C07", "C11", "C12", "C14", "C16"]),
    "std[be]": (False, "both", True, ["C06", "C07", "C14"]),
    "opt[both,le]": (True, "both", False, ["C04", "C07", "C12", "C14"]),
    "opt[both,be]": (True, "both", True, ["C04", "C06", "C14"]),
    "opt[little]": (True, "little", False, ["C04"]),
    "opt[big]": (True, "big", True, ["C04", "C06", "C07", "C12"]),
}


def _has_ext(t: L.Ty) -> bool:
    r = L.resolve(t)
    if isinstance(r, L.Array):
        return r.ext or _has_ext(r.elem)
    if isinstance(r, L.Message):
        return r.ext or any(_has_ext(f.type) for f in r.fields)
    return False


def traditional(u: family.Unit):
    """the sub-schema of u without extensible definitions (optimization mode refuses them)"""
    msgs = [m for m in u.messages if not _has_ext(m)]
    keep = []
    for d in u.schema.defs:
        if isinstance(d, L.Message) and _has_ext(d):
            continue
        if isinstance(d, L.Alias) and _has_ext(d.target):
            continue
        keep.append(d)
    return L.Schema(u.schema.name, keep, imports=u.schema.imports, options=u.schema.options), msgs


def _mk(u: family.Unit, variant: str):
    optimize, endian, big, props = VARIANTS[variant]
    props = [p for p in props if p in (getattr(u, "props_c", None) or props)]
    if not props:
        return
    pid = "gen-c:%s:%s" % (variant, u.name)

    def run(concrete=None, only=None) -> ProofResult:
        res = ProofResult(pid=pid, obls=[])
        try:
            schema, msgs = traditional(u) if optimize else (u.schema, u.messages)
            if not msgs:
                res.error = "no messages"
                return res
            prog, outs = genc.build_program(schema, optimize, endian, big)
            E = EN.Engine(pid, "generated C (%s) of %s" % (variant, schema.fname()), RENDER_C if optimize else RUNTIME,
                          list(props), scope="program")
            E.concrete = concrete

            def body():
                for msg in msgs:
                    mname = "".join(L._path(msg))
                    if only and not only.startswith("%s/%s/" % (pid, mname)):
                        continue
                    E.proof_id = "%s/%s" % (pid, mname)
                    E.cur_props = [p for p in props if p != "C16"]
                    genc.run_encode(E, prog, msg, big)
                    genc.run_decode(E, prog, msg, big)
                    if optimize and big:
                        # the big-endian -O decoder zeroes *m itself: its result may not depend on what the struct held before.  (The
                        # little-endian -O decoder and standard mode need the documented zero-initialised struct: storage bytes above
                        # the wire bytes - uint17 in a uint32_t - are never written.)
                        genc.run_decode(E, prog, msg, big, label="decode-into-used-struct", dirty_target=True)
                    if "C16" in props:
                        E.cur_props = ["C16"]
                        genc.run_json(E, prog, msg)
                        E.cur_props = None
                E.proof_id = pid
            E.explore(body)
            res.obls, res.paths = E.obls, E.completed_paths
            res.notes = ["messages=%d" % len(msgs)]
            if concrete is not None:
                res.replay = {"native_c": getattr(E, "native_runs", [])}
            if not E.obls:
                res.error = "no obligations generated"
        except CI.CUnsupported as e:
            if "clang failed" in str(e):
                # the C front end rejects the GENERATED translation unit (redefinition, undeclared type, ...): a defect of the
                # generator for this schema, not a limit of the interpreter
                E2 = EN.Engine(pid, "generated C (%s) of %s" % (variant, u.schema.fname()), RENDER_C, list(props), scope="program")
                first = [l for l in str(e).splitlines() if "error:" in l][:1]
                E2.oblige("generated-c-is-accepted-by-the-c-front-end (%s)" % (first[0].split("error:")[1].strip()[:100] if first else "clang failed"),
                          z3.BoolVal(False))
                res.obls = E2.obls
            else:
                res.error = "unsupported C construct: %s" % (e,)
        except EN.Unsupported as e:
            res.error = "unsupported construct: %s" % (e,)
        except Exception as e:
            res.error = "engine exception: %r\n%s" % (e, traceback.format_exc(limit=12))
            try:
                res.obls = E.obls          # what was generated before the crash still counts (a refutation stays a refutation)
            except NameError:
                pass
        return res

    p = ProofDef(pid=pid, func="generated C %s (+ runtime)" % variant if not optimize else "generated C %s" % variant,
                 file=RUNTIME if not optimize else RENDER_C, props=list(props), run=run, scope="program",
                 doc="Encode == reference bytes for all storage contents; Decode(reference bytes) == value")
    p.tier = u.tier
    register(p)


_quick = set(family.kind_tags("quick"))
for _t in family.kind_tags("thorough"):
    _u = family.leaf_unit(_t)
    _u.tier = "quick" if _t in _quick else "thorough"
    _u.props_c = ["C03", "C04", "C06", "C07", "C14", "C16"]
    if _t in ("uint48", "int63", "uint9"):
        _u.props_c.append("C12")      # alias transparency per program: plain and aliased positions against the same layout (wide and narrow)
    for _v in VARIANTS:
        _mk(_u, _v)
for _u in family.composite_units():
    if _u.name == "composite:enum-default-nonzero":
        continue        # a Python-only finding (C decodes into zeroed storage)
    _u.props_c = ["C03", "C04", "C06", "C07", "C12", "C16"]
    if "imports" in _u.tags or _u.name in ("composite:same-named-nested", "composite:deep-same-names"):
        _u.props_c.append("C11")        # the generated code binds each reference to the definition the schema resolves it to
    for _v in VARIANTS:
        if VARIANTS[_v][0] and "traditional" not in _u.tags and "traditional-part" not in _u.tags:
            continue
        _mk(_u, _v)


# ------------------------------------------------------------------ C12: rewrite variants (each proved against its own layout)
for _name, _schema, _top, _vmap in family.rewrite_variants():
    _u = family.Unit("rewrite:" + _name, _schema, [_top], tags=("rewrite", "traditional"))
    _u.props_c = ["C12"]
    for _v in ("std[le]", "opt[both,le]", "opt[big]"):
        _o, _e, _b, _pp = VARIANTS[_v]
        VARIANTS[_v] = (_o, _e, _b, sorted(set(_pp) | {"C12"}))
        _mk(_u, _v)


# ------------------------------------------------------------------ C05: evolution pairs (older C decoder, newer bytes)
def _mk_pair(name, s1, m1, s2, m2, project, big):
    pid = "gen-c:evolve[%s]:%s" % ("be" if big else "le", name)

    def run(concrete=None, only=None) -> ProofResult:
        res = ProofResult(pid=pid, obls=[])
        try:
            prog, outs = genc.build_program(s1, False, "both", big)
            E = EN.Engine(pid, "generated C of %s (older schema) + runtime, decoding the extended schema's bytes" % s1.fname(),
                          RUNTIME, ["C05"], scope="program")
            E.concrete = concrete
            E.explore(lambda: genc.run_decode(E, prog, m1, big, label="decode-extended", sender=m2, project=project))
            res.obls, res.paths = E.obls, E.completed_paths
            if concrete is not None:
                res.replay = {"native_c": getattr(E, "native_runs", [])}
            if not E.obls:
                res.error = "no obligations generated"
        except CI.CUnsupported as e:
            res.error = "unsupported C construct: %s" % (e,)
        except Exception as e:
            res.error = "engine exception: %r\n%s" % (e, traceback.format_exc(limit=12))
        return res

    p = ProofDef(pid=pid, func="generated C (older schema) + runtime", file=RUNTIME, props=["C05"], run=run,
                 scope="program", doc="decode of the newer schema's reference encoding yields every older-schema field")
    p.tier = "quick"
    register(p)


for _pair in family.evolution_pairs():
    _mk_pair(*_pair, big=False)
    _mk_pair(*_pair, big=True)


# ------------------------------------------------------------------ C17: -F restricts, never alters (per program, textual)
import re as _re


def _functions(text: str, lang: str):
    """{name: full text} of the top-level function definitions of a generated .c / .go file (a definition ends at the first `}` in
    column 0)"""
    out = {}
    pat = r"^(?:int|void) (\w+)\([^;{]*\)\s*\{\n.*?^\}" if lang == "c" else r"^func \(m \*?(\w+)\) (\w+)\([^{\n]*\{(?:[^\n]*\}$|\n.*?^\})"
    for m in _re.finditer(pat, text, _re.M | _re.S):
        name = m.group(1) if lang == "c" else "%s.%s" % (m.group(1), m.group(2))
        out[name] = m.group(0)
    return out


def _mk_filter(u: family.Unit, lang: str):
    pid = "gen-%s:filter:%s" % (lang, u.name)

    def run(concrete=None, only=None) -> ProofResult:
        res = ProofResult(pid=pid, obls=[])
        try:
            schema, msgs = traditional(u)
            tops = [m for m in schema.defs if isinstance(m, L.Message)]
            E = EN.Engine(pid, "generated %s -O with and without -F of %s" % (lang, schema.fname()), RENDER_C, ["C17"], scope="program")
            E.concrete = concrete
            main = schema.fname().replace(".bitproto", "_bp")

            def body():
                endians = ("both", "big") if lang == "c" else ("both",)
                for endian in endians:
                    full = build.compile_schema_cli(schema, lang, optimize=True, endian=endian)
                    src = [t for fn, t in full.items() if fn.endswith("." + lang)][0]
                    f_all = _functions(src, lang)
                    codec = lambda n: (("Encode" + n, "Decode" + n) if lang == "c" else (n + ".Encode", n + ".Decode"))
                    names = ["".join(w[:1].upper() + w[1:] for w in m.name.split("_")) if lang == "go" else genc.c_struct_name(m) for m in tops]
                    E.oblige("unfiltered/%s/every-message-has-both-functions" % endian,
                             z3.BoolVal(all(c in f_all for n in names for c in codec(n))))
                    for sel, selname in zip(tops, names):
                        part = build.compile_schema_cli(schema, lang, optimize=True, endian=endian, filter_messages=[sel.name])
                        psrc = [t for fn, t in part.items() if fn.endswith("." + lang)][0]
                        f_sel = _functions(psrc, lang)
                        tag = "-F %s/%s" % (sel.name, endian)
                        for c in codec(selname):
                            E.oblige("%s/%s-textually-identical" % (tag, c), z3.BoolVal(c in f_sel and f_sel[c] == f_all.get(c)))
                        is_codec = (lambda k: k.startswith(("Encode", "Decode"))) if lang == "c" else (lambda k: k.endswith((".Encode", ".Decode")))
                        # exactly the NAMED message gets them (messages nested in it are messages of their own and were not named)
                        # -F selects by message NAME: a nested message that carries the same name (Pack.Cell next to Cell) is named too
                        def all_msgs(ms):
                            for m_ in ms:
                                yield m_
                                yield from all_msgs([x for x in getattr(m_, "nested", []) if isinstance(x, L.Message)])
                        same = [m_ for m_ in all_msgs(tops) if m_.name == sel.name]
                        flat = lambda m_: ("".join(w[:1].upper() + w[1:] for w in "_".join(L._path(m_)).split("_")) if lang == "go"
                                           else genc.c_struct_name(m_))
                        want_codec = sorted(c for m_ in same for c in codec(flat(m_)))
                        E.oblige("%s/no-function-for-unselected" % tag,
                                 z3.BoolVal(sorted(k for k in f_sel if is_codec(k)) == want_codec))
                        # everything that is not an encoder / decoder stays: same remaining functions, same declarations
                        rest_all = {k: v for k, v in f_all.items() if not is_codec(k)}
                        rest_sel = {k: v for k, v in f_sel.items() if not is_codec(k)}
                        E.oblige("%s/other-functions-unchanged" % tag, z3.BoolVal(rest_all == rest_sel))
                        if lang == "c":
                            decl = lambda t: [l for l in t.splitlines() if l.startswith(("struct ", "#define ", "typedef ", "enum ")) or l.startswith("    ")]
                            h_all = [t for fn, t in full.items() if fn.endswith(".h")][0]
                            h_sel = [t for fn, t in part.items() if fn.endswith(".h")][0]
                            E.oblige("%s/declarations-unchanged" % tag, z3.BoolVal(decl(h_all) == decl(h_sel)))
                        else:
                            # what is left of the file without function definitions and comment lines: package, imports, types, constants
                            strip = lambda t: [l for l in _re.sub(r"^func [^\n]*\{(?:[^\n]*\}$|\n.*?^\})\n?", "", t, flags=_re.M | _re.S).splitlines()
                                               if l.strip() and not l.strip().startswith("//")]
                            E.oblige("%s/declarations-unchanged" % tag, z3.BoolVal(strip(src) == strip(psrc)))
            E.explore(body)
            res.obls, res.paths = E.obls, E.completed_paths
            if not E.obls:
                res.error = "no obligations generated"
        except Exception as e:
            res.error = "engine exception: %r\n%s" % (e, traceback.format_exc(limit=12))
        return res

    p = ProofDef(pid=pid, func="generated %s -O / -O -F" % lang, file=RENDER_C, props=["C17"], run=run, scope="program",
                 doc="the encoder / decoder of a selected message is textually the one generated without -F; unselected messages get none; "
                     "every other function and every declaration is unchanged (each rendering through the command line in a fresh process)")
    p.tier = "quick"
    register(p)


for _u in family.composite_units():
    if "traditional" in _u.tags and _u.name not in ("composite:enum-default-nonzero", "composite:wide") and len(
            [m for m in traditional(_u)[0].defs if isinstance(m, L.Message)]) >= 2:
        _mk_filter(_u, "c")
        _mk_filter(_u, "go")
