"""Side-car contracts for _main.py (main), linter.py, renderer.py (optimization-mode check) and the three -F filters."""
from __future__ import annotations

import contextlib
import itertools
import traceback
from typing import Callable, List

import z3

from ..core.registry import ProofDef, ProofResult, register
from ..pysym import engine as EN
from ..pysym import loader
from ..pysym.loops import LoopVC, LoopSpec
from ..pysym.proxies import SymInt, SymBool, wrap, lift, lift_bool, sym_int, sym_isinstance, sym_len
from .py_ast import ast_module
from .py_parser import no_internal_exception

MAIN = "compiler/bitproto/_main.py"
LINTER = "compiler/bitproto/linter.py"


def gproof(pid: str, file: str, func: str, props: List[str], must=None, calls=None, assumes=None, cuts=None,
           modname=None, shadows=None, doc="", optional_cuts=False):
    """generic proof on an imported compiler module (or, with cuts, on a re-exec'd copy of it)"""
    def deco(body: Callable):
        def run(concrete=None) -> ProofResult:
            res = ProofResult(pid=pid, obls=[])
            try:
                src = loader.read_src(file)
                seg, line = loader.func_source(src, func)
                res.sha, res.line = loader.func_sha(src, func), line
                E = EN.Engine(pid, func, "%s:%d" % (file, line), props, srcfile=loader.os.path.join(loader.REPO, file))
                E.concrete = concrete
                with ast_module() as A:
                    if cuts:
                        vc = LoopVC({})
                        try:
                            mod, info = loader.load(file, modname, shadows=shadows or {}, cuts=cuts, vc=vc, package="bitproto")
                        except KeyError as e:
                            if optional_cuts and "loops to cut not found" in str(e):
                                # the function no longer contains the annotated loop (e.g. rewritten with any()): the unbounded
                                # loop-invariant proof does not apply to this code shape; its bounded companion proof still runs
                                E.oblige("not-applicable:annotated-loop-absent (bounded companion proof decides this function)", True,
                                         kind="lemma")
                                res.obls, res.paths = E.obls, 0
                                res.notes.append("annotated loop absent: unbounded proof skipped, see the /upto4 companion")
                                return res
                            raise
                        res.cut_loops = info
                        E.explore(lambda: body(E, A, mod, vc))
                    else:
                        E.explore(lambda: body(E, A))
                res.obls, res.paths = E.obls, E.completed_paths
                missing = [m for m in (must or []) if not any(l.startswith(m) for l in E.labels_seen)]
                if missing:
                    res.error = "labels never generated (vacuous proof?): %r" % missing
                if not E.obls:
                    res.error = "no obligations generated"
            except KeyError as e:
                res.error = "target not found: %r" % (e,)
            except EN.Unsupported as e:
                res.error = "unsupported construct: %s" % (e,)
                try:
                    res.obls = E.obls       # keep what was generated before the engine gave up (refutations still count)
                except NameError:
                    pass
            except Exception as e:
                res.error = "engine exception: %r\n%s" % (e, traceback.format_exc(limit=-6))
            return res
        register(ProofDef(pid=pid, func=func, file=file, props=props, run=run, must_labels=must or [],
                          doc=doc or (body.__doc__ or ""), calls=calls or [], assumes=assumes or []))
        return body
    return deco


# ----------------------------------------------------------------------------- main
class Fatal(BaseException):
    def __init__(self, msg, code):
        self.msg, self.code = msg, code


@gproof("py:_main.main", MAIN, "main", ["C17", "C20", "C08"], must=["post:"],
        calls=["parse", "lint", "render", "fatal"],
        assumes=["fatal() terminates the process with a non-zero status (os._exit(1)) and never returns"])
def _main(E, A):
    """every combination of the boolean / list arguments and of the outcomes of parse, lint, render (lint count symbolic):
    parse gets traditional_mode = enable_optimize and not check; errors lead to fatal; check mode exits non-zero exactly when
    there was an error or a warning and never renders; -F without -O is refused before rendering; render receives exactly the
    given language / filter / endian; the linter's presence changes neither acceptance nor the arguments of render"""
    import bitproto._main as M
    import bitproto.errors as ER
    saved = (M.parse, M.lint, M.render, M.fatal)
    w = E.fresh("warnings", "int")
    E.assume(w >= 0)
    try:
        combos = itertools.product((False, True), (False, True), (False, True), (None, [], ["A"]), ("", "c"),
                                   ("ok", "parser-error", "io-error"), ("ok", "renderer-error", "io-error"))
        for disable_linter, check, opt, flt, lang, parse_out, render_out in combos:
            if parse_out != "ok" and render_out != "ok":
                continue
            log = []
            proto = object()

            def parse(fp, traditional_mode=False):
                log.append(("parse", fp, traditional_mode))
                if parse_out == "parser-error":
                    raise ER.GrammarError(filepath="f", lineno=1)
                if parse_out == "io-error":
                    raise IOError("nope")
                return proto

            def lint(p):
                log.append(("lint", p))
                return SymInt(w)

            def render(p, lang_, **kw):
                log.append(("render", p, lang_, kw))
                if render_out == "renderer-error":
                    raise ER.RendererError()
                if render_out == "io-error":
                    raise IOError("disk")
                return []

            def fatal(s="", code=1):
                log.append(("fatal", code))
                # the parent process sees only the low 8 bits of the status: "exits non-zero" needs 1 <= code <= 255
                if isinstance(code, SymInt):
                    E.oblige("post:exit-status-is-a-nonzero-byte" + tag, z3.And(lift(code) >= 1, lift(code) <= 255))
                else:
                    E.oblige("post:exit-status-is-a-nonzero-byte" + tag, z3.BoolVal(type(code) is int and 1 <= code <= 255))
                raise Fatal(s, code)
            tag = "[q=%s,c=%s,O=%s,F=%s,lang=%r,parse=%s,render=%s]" % (disable_linter, check, opt, flt, lang, parse_out, render_out)
            M.parse, M.lint, M.render, M.fatal = parse, lint, render, fatal
            try:
                M.main("x.bitproto", lang=lang, outdir="out", disable_linter=disable_linter, check=check,
                       enable_optimize=opt, filter_messages=flt, endian="big")
                exited = None
            except Fatal as f:
                exited = f.code
            kinds = [x[0] for x in log]
            # 1. parse
            E.oblige("post:parse" + tag, z3.BoolVal(log[0] == ("parse", "x.bitproto", bool(opt and not check))))
            if parse_out != "ok":
                E.oblige("post:parse-error-is-fatal" + tag, z3.BoolVal(kinds == ["parse", "fatal"] and exited not in (None, 0)))
                continue
            # 2. lint is advisory
            E.oblige("post:lint-called-iff-enabled" + tag, z3.BoolVal(("lint" in kinds) == (not disable_linter)
                                                                       and all(x[1] is proto for x in log if x[0] == "lint")))
            if check:
                E.oblige("post:check-never-renders" + tag, z3.BoolVal("render" not in kinds))
                if disable_linter:
                    E.oblige("post:check-exit" + tag, z3.BoolVal(exited is None))
                else:
                    # exits non-zero exactly when there is at least one warning
                    E.oblige("post:check-exit" + tag, z3.BoolVal(exited not in (None, 0)) == (w > 0))
                continue
            refuse = (not lang) or (not opt and bool(flt))
            if refuse:
                E.oblige("post:refused-before-render" + tag, z3.BoolVal("render" not in kinds and exited not in (None, 0)))
                continue
            rcalls = [x for x in log if x[0] == "render"]
            ok_args = len(rcalls) == 1 and rcalls[0][1] is proto and rcalls[0][2] == lang and rcalls[0][3] == dict(
                outdir="out", optimization_mode=opt, optimization_mode_filter_messages=flt, optimization_mode_endian="big")
            E.oblige("post:render-args" + tag, z3.BoolVal(ok_args))
            if render_out == "ok":
                E.oblige("post:success" + tag, z3.BoolVal(exited is None))
            else:
                E.oblige("post:render-error-is-fatal" + tag, z3.BoolVal(exited not in (None, 0)))
    finally:
        M.parse, M.lint, M.render, M.fatal = saved


# ----------------------------------------------------------------------------- renderer / optimization mode
@gproof("py:renderer.check_proto_for_optimization_mode", "compiler/bitproto/renderer/renderer.py",
        "Renderer.check_proto_for_optimization_mode", ["C17"], must=["post:"])
def _check_opt(E, A):
    """raises LanguageNotSupportOptimizationMode  <=>  optimization_mode and not support_optimization(); the constructor runs the
    check; the Python renderer does not support optimization mode, C and Go do"""
    import bitproto.errors as ER
    import bitproto.renderer.renderer as R
    from bitproto.renderer.impls.py.renderer import RendererPy
    from bitproto.renderer.impls.c.renderer_c import RendererC
    from bitproto.renderer.impls.c.renderer_h import RendererCHeader
    from bitproto.renderer.impls.go.renderer import RendererGo
    proto = A.Proto(name="p", filepath="/x/p.bitproto")
    for cls, supports in ((RendererPy, False), (RendererC, True), (RendererCHeader, True), (RendererGo, True)):
        for opt in (False, True):
            st, r = no_internal_exception(E, "call[%s,%s]" % (cls.__name__, opt),
                                          lambda: cls(proto, outdir="/tmp", optimization_mode=opt,
                                                      optimization_mode_filter_messages=["A"], optimization_mode_endian="little"))
            if opt and not supports:
                E.oblige("post:refused[%s]" % cls.__name__, z3.BoolVal(st == "parser-error" or isinstance(r, ER.LanguageNotSupportOptimizationMode)))
            else:
                E.oblige("post:accepted[%s,%s]" % (cls.__name__, opt),
                         z3.BoolVal(st == "ok" and r.optimization_mode is opt and r.optimization_mode_filter_messages == ["A"]
                                    and r.optimization_mode_endian == "little"))
    E.oblige("post:registry", z3.BoolVal(True))


def _no_internal(E, label, thunk):
    import bitproto.errors as ER
    try:
        return ("ok", thunk())
    except ER.Error as e:
        return ("error", e)


# LanguageNotSupportOptimizationMode is a RendererError, not a ParserError: adapt the helper for this file
def no_internal_exception(E, label, thunk):     # noqa: F811
    import bitproto.errors as ER
    try:
        r = thunk()
        E.oblige(label + "/no-internal-exception", True, kind="no-exception")
        return ("ok", r)
    except ER.Error as e:
        E.oblige(label + "/no-internal-exception", True, kind="no-exception")
        return ("parser-error", e)
    except (EN.StopPath, EN.Unsupported):
        raise
    except Exception as e:
        E.oblige(label + "/no-internal-exception", False, kind="no-exception")
        E.notes.append("%s: %r" % (label, e))
        return ("internal", e)


class SymFilter:
    """abstract -F list: truthiness and membership are free booleans (member => non-empty)"""

    def __init__(self, E, nonempty, member):
        self.E, self.nonempty, self.member = E, nonempty, member

    def __bool__(self):
        return EN.cur().branch(self.nonempty)

    def __contains__(self, x):
        return EN.cur().branch(self.member)

    def __iter__(self):
        raise EN.Unsupported("iteration over the abstract -F list")

    def __len__(self):
        raise EN.Unsupported("len of the abstract -F list")


def _filter_proof(pid, file, func, mk_block, kept, label_cls):
    @gproof(pid, file, func, ["C17"], must=["post:generic", "post:example"])
    def _p(E, A):
        """a message is dropped  <=>  the -F list is non-empty and does not contain its name (exact match);
        a kept message gets a block built from the message alone (independent of the list); non-messages are unaffected"""
        from bitproto.renderer.block import BlockRenderContext
        proto = A.Proto(name="p")
        msg = A.Message(name="Data", _bound=proto)
        nonempty, member = E.fresh("nonempty", "bool"), E.fresh("member", "bool")
        E.assume(z3.Implies(member, nonempty))

        def run(flt):
            blk = mk_block(msg)
            ctx = BlockRenderContext(formatter=None, bound=proto, optimization_mode_filter_messages=flt)
            blk._render_ctx = ctx
            if hasattr(blk, "_ctx"):
                blk._ctx = ctx
            return kept(blk, msg)
        # exact-name examples (suffix / prefix / case / substring are NOT matches) - run natively on real lists
        for flt, want in ((None, True), ([], True), (["Data"], True), (["SensorData"], False), (["Dat"], False),
                          (["data"], False), (["DataX", "Other"], False), (["Other", "Data"], True), (["Data.Inner"], False)):
            E.oblige("post:example%r" % (flt,), z3.BoolVal(run(flt) is want))
        got = run(SymFilter(E, nonempty, member))
        E.oblige("post:generic", z3.BoolVal(got) == z3.Or(z3.Not(nonempty), member))
    return _p


def _c_kept(blk, msg):
    r = blk.dispatch(msg)
    return r is not None and r.d is msg


def _set_ctx(blk, ctx):
    blk._render_ctx = ctx


def _mk_c(msg):
    from bitproto.renderer.impls.c.renderer_c import BlockBoundDefinitionListOpMode
    return BlockBoundDefinitionListOpMode()


def _mk_h(msg):
    from bitproto.renderer.impls.c.renderer_h import BlockFunctionDeclarationsForUserListOpMode
    return BlockFunctionDeclarationsForUserListOpMode()


def _mk_go(msg):
    from bitproto.renderer.impls.go.renderer import BlockMessageOpMode
    return BlockMessageOpMode(msg)


GO_BASE = ["BlockMessageStruct", "BlockMessageSizeConst", "BlockMessageMethodSize", "BlockMessageMethodString"]
GO_CODEC = ["BlockMessageMethodEncodeOpMode", "BlockMessageMethodDecodeOpMode"]


def _go_kept(blk, msg):
    names = [type(b).__name__ for b in blk.blocks()]
    kept = any(n in names for n in GO_CODEC)
    # whether or not the message is selected, its type, size constant, Size() and String() are still emitted, and a selected
    # message gets both Encode and Decode (all built from the message alone)
    ok = sorted(names) == sorted(GO_BASE + (GO_CODEC if kept else [])) and all(getattr(b, "d", None) is msg for b in blk.blocks())
    EN.cur().oblige("post:declarations-still-emitted%s" % ("" if ok else " (got %s)" % names), z3.BoolVal(ok))
    return kept


_filter_proof("py:renderer_c.BlockBoundDefinitionListOpMode.dispatch", "compiler/bitproto/renderer/impls/c/renderer_c.py",
              "BlockBoundDefinitionListOpMode.dispatch", _mk_c, _c_kept, "c")
_filter_proof("py:renderer_h.BlockFunctionDeclarationsForUserListOpMode.dispatch", "compiler/bitproto/renderer/impls/c/renderer_h.py",
              "BlockFunctionDeclarationsForUserListOpMode.dispatch", _mk_h, _c_kept, "h")
_filter_proof("py:go.BlockMessageOpMode.blocks", "compiler/bitproto/renderer/impls/go/renderer.py",
              "BlockMessageOpMode.blocks", _mk_go, _go_kept, "go")


# ----------------------------------------------------------------------------- linter
class GuardList(list):
    """a list that records any in-place mutation (lint must not modify what the renderer will read)"""
    mutated = False

    def _m(self, *a, **k):
        GuardList.mutated = True
        raise EN.Unsupported("lint mutated a list owned by the AST")
    sort = reverse = append = extend = insert = pop = remove = clear = __setitem__ = __delitem__ = __iadd__ = __imul__ = _m


@gproof("py:linter.Linter.lint", LINTER, "Linter.lint", ["C20"], must=["post:count"], calls=["Rule.check", "Proto.filter", "warning"])
def _lint(E, A):
    """returns exactly the number of (definition, rule) pairs whose check is not None, reports each, and mutates nothing
    (the lists it receives from the AST are left untouched, so generated output cannot depend on linting)"""
    import bitproto.linter as LN
    saved_warning = LN.warning
    reported = []
    LN.warning = lambda w=None: reported.append(w)
    try:
        proto = A.Proto(name="p")
        m1 = A.Message(name="M1", _bound=proto)
        m2 = A.Message(name="M2", _bound=proto)
        e1 = A.Enum(name="E1", type=A.Uint(cap=3), _bound=proto)
        lists = {}
        GuardList.mutated = False

        def flt(t, recursive=False, bound=None):
            if t is A.Message:
                items = [("M1", m1), ("M2", m2)]
            elif t is A.Enum:
                items = [("E1", e1)]
            else:
                items = []
            lists[t] = GuardList(items)
            E.oblige("post:filter-args[%s]" % t.__name__, z3.BoolVal(recursive is True and bound is proto))
            return lists[t]
        object.__setattr__(proto, "filter", flt)
        outcomes = {}

        class R(LN.Rule):
            def __init__(self, tc, tag):
                self.tc, self.tag = tc, tag

            def target_class(self):
                return self.tc

            def check(self, definition, name=None):
                b = E.fresh("warn_%s_%s" % (self.tag, name), "bool")
                outcomes[(self.tag, name)] = b
                if EN.cur().branch(b):
                    return ("W", self.tag, name)
                return None

        class L(LN.Linter):
            def rules(self):
                return (R(A.Message, "rm1"), R(A.Message, "rm2"), R(A.Enum, "re"), R(A.Proto, "rp"))
        try:
            n = L().lint(proto)
        except EN.Unsupported:
            E.oblige("post:no-mutation", False, kind="frame")
            return
        want = sum(z3.If(b, 1, 0) for b in outcomes.values())
        E.oblige("post:count", lift(n, z3.IntVal(0)) == want)
        E.oblige("post:all-pairs-checked", z3.BoolVal(sorted(outcomes) == sorted([("rm1", "M1"), ("rm1", "M2"), ("rm2", "M1"),
                                                                                 ("rm2", "M2"), ("re", "E1"), ("rp", "p")])))
        E.oblige("post:reported", z3.BoolVal(all(isinstance(w, tuple) for w in reported)) if reported else True)
        E.oblige("post:reported-count", lift(len(reported), z3.IntVal(0)) == want)
        E.oblige("post:no-mutation", z3.BoolVal(not GuardList.mutated and lists[A.Message] == [("M1", m1), ("M2", m2)]), kind="frame")
    finally:
        LN.warning = saved_warning


@gproof("py:linter.RuleDefinitionIndent.check", LINTER, "RuleDefinitionIndent.check", ["C20"], must=["post:iff"])
def _rule_indent(E, A):
    """warning  <=>  indent > 0 and indent != 4 * (nesting depth - 1)   (an indent of 0 or an unknown indent is never flagged);
    the warning cites the definition's file and line"""
    import bitproto.linter as LN
    import bitproto.errors as ER
    ind = E.fresh("indent")
    E.assume(z3.And(ind >= -1, ind < 10000))
    for depth in range(0, 5):
        d = A.Alias(name="T", type=A.Bool(), indent=SymInt(ind), scope_stack=tuple(object() for _ in range(depth)),
                    token="T", lineno=6, filepath="f.bitproto")
        w = LN.RuleDefinitionIndent().check(d, "T")
        expect = (depth - 1) * 4
        cond = z3.And(ind > 0, z3.BoolVal(expect >= 0), ind != expect)
        if w is None:
            E.oblige("post:iff[depth=%d]/none" % depth, z3.Not(cond))
        else:
            E.oblige("post:iff[depth=%d]/warn" % depth, z3.And(cond, z3.BoolVal(type(w) is ER.IndentWarning and w.lineno == 6
                                                                               and w.filepath == "f.bitproto")))


class AbsFields:
    def __init__(self, n, val):
        self.n, self.val = n, val

    def sym_len(self):
        return wrap(self.n)

    def sym_get(self, k):
        f = type("F", (), {})()
        f.value = SymInt(self.val(lift(k, self.n)))
        return f

    def __iter__(self):
        raise EN.Unsupported("iteration over abstract enum fields outside the cut loop")


class Enum0Loop(LoopSpec):
    model = "int"

    def bind(self, fields):
        self.f = fields

    def seq(self, it):
        return it

    def inv(self, loc):
        k = lift(loc["vc_i1_"], self.f.n)
        j = z3.Int("j")
        return [("range", z3.And(k >= 0, k <= self.f.n)),
                ("no-zero-so-far", z3.ForAll([j], z3.Implies(z3.And(j >= 0, j < k), self.f.val(j) != 0)))]

    def variant(self, loc):
        return self.f.n - lift(loc["vc_i1_"], self.f.n)


@gproof("py:linter.RuleEnumContains0.check/upto4", LINTER, "RuleEnumContains0.check", ["C20"], must=["post:warn-iff-no-zero"])
def _rule_enum0_small(E, A):
    """the same contract for enums of 0..4 members with symbolic values, independent of how the search is written (loop, any(),
    comprehension): complete for these sizes, BOUNDED in the number of members (the loop-invariant proof above is the unbounded one)"""
    import bitproto.linter as LN
    for n in range(0, 5):
        vals = [E.fresh("v%d_%d" % (n, k)) for k in range(n)]
        for v in vals:
            E.assume(z3.And(v >= 0, v < (1 << 64)))

        class F:
            def __init__(self, v):
                self.value = SymInt(v)
        en = type("En", (), {})()
        fs = [F(v) for v in vals]
        en.fields = lambda fs=fs: fs
        en.filepath, en.token, en.lineno = "f.bitproto", "E", 4
        w = LN.RuleEnumContains0().check(en, "E")
        has0 = z3.Or(*[v == 0 for v in vals]) if vals else z3.BoolVal(False)
        if w is None:
            E.oblige("post:warn-iff-no-zero[%d]/none" % n, has0)
        else:
            E.oblige("post:warn-iff-no-zero[%d]/warn" % n, z3.And(z3.Not(has0), z3.BoolVal(w.lineno == 4 and w.filepath == "f.bitproto")))


@gproof("py:linter.RuleEnumContains0.check", LINTER, "RuleEnumContains0.check", ["C20"],
        cuts={("RuleEnumContains0.check", 1): "loop1"}, modname="bitproto.linter_cut",
        must=["post:warn-iff-no-zero", "loop1/inv-preserve#no-zero-so-far"], optional_cuts=True)
def _rule_enum0(E, A, LN, vc):
    """warning  <=>  no member of the enum has value 0  (any number of members)"""
    n = E.fresh("n", "int")
    val = z3.Function("val", z3.IntSort(), z3.IntSort())
    E.assume(z3.And(n >= 0, n <= 100000))
    fields = AbsFields(n, val)
    sp = Enum0Loop()
    sp.bind(fields)
    vc.specs["loop1"] = sp
    en = type("En", (), {})()
    en.fields = lambda: fields
    en.filepath, en.token, en.lineno = "f.bitproto", "E", 4
    w = LN.RuleEnumContains0().check(en, "E")
    j = z3.Int("j")
    has0 = z3.Exists([j], z3.And(j >= 0, j < n, val(j) == 0))
    if w is None:
        E.oblige("post:warn-iff-no-zero/none", has0)
    else:
        E.oblige("post:warn-iff-no-zero/warn", z3.And(z3.Not(has0), z3.BoolVal(w.lineno == 4 and w.filepath == "f.bitproto")))


@gproof("py:linter.naming-rules", LINTER, "RuleMessageNamingPascal", ["C20"], must=["post:"],
        calls=["pascal_case", "snake_case", "str.isupper"],
        assumes=["pascal_case / snake_case / str.isupper themselves are string code (C15: not applicable); the rules are proved "
                 "relative to them"])
def _naming(E, A):
    """each naming rule warns  <=>  the declared name differs from its converter's output (resp. is not upper case), uses the name
    the definition has in its parent scope, suggests the converted name, and cites the definition's file and line"""
    import bitproto.linter as LN
    import bitproto.errors as ER
    saved = (LN.pascal_case, LN.snake_case)
    proto = A.Proto(name="p")
    tok = dict(token="tk", lineno=9, filepath="f.bitproto")
    defs = {
        "RuleAliasNamingPascal": (A.Alias(name="decl", type=A.Bool(), _bound=proto, **tok), "pascal", ER.AliasNameNotPascal),
        "RuleEnumNamingPascal": (A.Enum(name="decl", type=A.Uint(cap=3), _bound=proto, **tok), "pascal", ER.EnumNameNotPascal),
        "RuleMessageNamingPascal": (A.Message(name="decl", _bound=proto, **tok), "pascal", ER.MessageNameNotPascal),
        "RuleMessageFieldNamingSnake": (A.MessageField(name="decl", type=A.Bool(), number=1, **tok), "snake", ER.MessageFieldNameNotSnake),
    }
    try:
        for rule, (d, conv, wcls) in defs.items():
            for same in (True, False):
                seen = []

                def cv(word):
                    seen.append(word)
                    return word if same else "CONVERTED"
                LN.pascal_case = cv if conv == "pascal" else (lambda w: (_ for _ in ()).throw(AssertionError("wrong converter")))
                LN.snake_case = cv if conv == "snake" else (lambda w: (_ for _ in ()).throw(AssertionError("wrong converter")))
                w = getattr(LN, rule)().check(d, "scope_name")
                ok = seen == ["scope_name"] and ((w is None) if same else (type(w) is wcls and w.lineno == 9 and w.filepath == "f.bitproto"
                                                                          and w.suggestion == "CONVERTED"))
                E.oblige("post:%s[%s]" % (rule, "conforming" if same else "violating"), z3.BoolVal(ok))
            # without a scope name the definition's own name is used
            seen = []
            LN.pascal_case = LN.snake_case = lambda word: (seen.append(word), word)[1]
            getattr(LN, rule)().check(d, None)
            E.oblige("post:%s[own-name]" % rule, z3.BoolVal(seen == ["decl"]))
    finally:
        LN.pascal_case, LN.snake_case = saved
    for rule, d, wcls in (("RuleConstantNamingUpper", A.IntegerConstant(name="x", value=1, **tok), ER.ConstantNameNotUpper),
                          ("RuleEnumFieldNamingUpper", A.EnumField(name="x", value=1, **tok), ER.EnumFieldNameNotUpper)):
        for nm, upper in (("ABC_D1", True), ("Abc", False), ("abc", False), ("A", True)):
            w = getattr(LN, rule)().check(d, nm)
            ok = (w is None) if upper else (type(w) is wcls and w.lineno == 9 and w.filepath == "f.bitproto" and w.suggestion == nm.upper())
            E.oblige("post:%s[%s]" % (rule, nm), z3.BoolVal(ok))
    # rule -> target class wiring and the default rule set
    rules = LN.Linter().rules()
    E.oblige("post:rule-set", z3.BoolVal(sorted(type(r).__name__ for r in rules) == sorted([
        "RuleDefinitionIndent", "RuleAliasNamingPascal", "RuleConstantNamingUpper", "RuleEnumNamingPascal", "RuleEnumContains0",
        "RuleEnumFieldNamingUpper", "RuleMessageNamingPascal", "RuleMessageFieldNamingSnake"])))
    want = {"RuleDefinitionIndent": A.BoundDefinition, "RuleAliasNamingPascal": A.Alias, "RuleConstantNamingUpper": A.Constant,
            "RuleEnumNamingPascal": A.Enum, "RuleEnumContains0": A.Enum, "RuleEnumFieldNamingUpper": A.EnumField,
            "RuleMessageNamingPascal": A.Message, "RuleMessageFieldNamingSnake": A.MessageField}
    E.oblige("post:target-classes", z3.BoolVal(all(r.target_class() is want[type(r).__name__] for r in rules)
                                               and all(t in LN.SUPPORTED_TYPES for t in want.values())))


# ----------------------------------------------------------------------------- C13: literals in the three target languages
@gproof("py:formatters.format_int_value", "compiler/bitproto/renderer/impls/c/formatter.py", "CFormatter.format_int_value",
        ["C13"], must=["post:"],
        assumes=["format()/str() of a Python int give its decimal numeral, '-' prefixed when negative (external; modelled by a marker "
                 "standing for str.from_int of the term)"])
def _fmt_int(E, A):
    """format_int_value(v) is exactly the decimal numeral of v (nothing before or after it: a valid integer literal in C, Go and
    Python); format_bool_value gives true/false (True/False in Python); format_value dispatches on the value's kind"""
    from bitproto.renderer.impls.c.formatter import CFormatter
    from bitproto.renderer.impls.go.formatter import GoFormatter
    from bitproto.renderer.impls.py.formatter import PyFormatter
    from ..pysym.proxies import sym_str_marker
    import bitproto.renderer.formatter as FM
    v = E.fresh("v")
    saved = FM.__dict__.get("isinstance")
    FM.isinstance = sym_isinstance
    try:
        for cls, t, f in ((CFormatter, "true", "false"), (GoFormatter, "true", "false"), (PyFormatter, "True", "False")):
            # the value's KIND decides the literal, not its hash / equality class (True == 1, False == 0 in Python): in either order,
            # on one formatter object
            fm = cls()
            seq1 = [fm.format_value(True), fm.format_value(1), fm.format_value(False), fm.format_value(0)]
            fm = cls()
            seq2 = [fm.format_value(1), fm.format_value(True), fm.format_value(0), fm.format_value(False)]
            E.oblige("post:bool-and-int-of-equal-value-keep-their-kind[%s]" % cls.__name__,
                     z3.BoolVal(seq1 == [t, "1", f, "0"] and seq2 == ["1", t, "0", f]))
            fm = cls()
            try:
                r = fm.format_int_value(SymInt(v))
            except TypeError as e:
                raise EN.Unsupported("format_int_value on a symbolic int: %r" % (e,))
            E.oblige("post:int[%s]" % cls.__name__, z3.BoolVal(r == sym_str_marker(v)))
            try:
                r = fm.format_value(SymInt(v))
            except TypeError as e:
                raise EN.Unsupported("format_value on a symbolic int: %r" % (e,))
            E.oblige("post:value-int[%s]" % cls.__name__, z3.BoolVal(r == sym_str_marker(v)))
            E.oblige("post:bool[%s]" % cls.__name__, z3.BoolVal(fm.format_bool_value(True) == t and fm.format_bool_value(False) == f
                                                               and fm.format_value(True) == t and fm.format_value(False) == f))
            E.oblige("post:concrete-int[%s]" % cls.__name__, z3.BoolVal(fm.format_int_value(0) == "0" and fm.format_int_value(65535) == "65535"
                                                                       and fm.format_value(18446744073709551615) == "18446744073709551615"))
            E.oblige("post:value-str[%s]" % cls.__name__, z3.BoolVal(fm.format_value("x") == fm.format_str_value("x") == '"x"'))
    finally:
        if saved is None:
            FM.__dict__.pop("isinstance", None)
        else:
            FM.isinstance = saved


@gproof("py:_main.run_bitproto", MAIN, "run_bitproto", ["C17"], must=["post:"], calls=["main", "argparse (external)"],
        assumes=["argparse delivers the option values as typed on the command line (external)"])
def _run_bitproto(E, A):
    """the command line reaches main() unchanged: -F value split at commas with every name stripped of surrounding white space (so
    `-F "A, B"` selects A and B), None without -F, a non-empty -F value never becomes an empty / falsy list (so -F without -O is
    still refused); -O, -c, -q, --endian, language, file and output directory are passed through"""
    import sys
    import bitproto._main as M
    saved_main, saved_argv = M.main, sys.argv
    cases = [
        (["c", "f.bitproto", "out", "-O", "-F", "A,B"], dict(filter_messages=["A", "B"], enable_optimize=True, lang="c", outdir="out")),
        (["c", "f.bitproto", "out", "-O", "-F", "A, B"], dict(filter_messages=["A", "B"])),
        (["go", "f.bitproto", "out", "-O", "-F", " A "], dict(filter_messages=["A"], lang="go")),
        (["c", "f.bitproto", "out", "-O", "-F", "A ,B , C"], dict(filter_messages=["A", "B", "C"])),
        (["c", "f.bitproto", "out", "-O"], dict(filter_messages=None, enable_optimize=True)),
        (["py", "f.bitproto", "out"], dict(filter_messages=None, enable_optimize=False, lang="py", check=False, disable_linter=False, endian="both")),
        (["c", "f.bitproto", "out", "-O", "--endian", "big", "-q"], dict(endian="big", disable_linter=True)),
        (["-c", "f.bitproto"], dict(check=True)),
    ]
    try:
        for argv, want in cases:
            got = {}

            def main(filepath, **kw):
                got.update(kw, filepath=filepath)
            M.main = main
            sys.argv = ["bitproto"] + argv
            M.run_bitproto()
            ok = all(got.get(k) == v for k, v in want.items()) and "f.bitproto" in (got.get("filepath"), got.get("lang"))
            E.oblige("post:%s%s" % (" ".join(argv), "" if ok else " (main got %r)" % (got,)), z3.BoolVal(ok))
        # a -F value without any name (only separators / blanks) is still a present -F: never silently dropped
        for val in (" , ", " ", ","):
            got = {}
            M.main = lambda filepath, **kw: got.update(kw)
            sys.argv = ["bitproto", "c", "f.bitproto", "out", "-F", val]
            M.run_bitproto()
            E.oblige("post:-F %r stays present" % val, z3.BoolVal(bool(got.get("filter_messages"))))
    finally:
        M.main, sys.argv = saved_main, saved_argv


@gproof("py:renderer_h.BlockMessageStruct.after", "compiler/bitproto/renderer/impls/c/renderer_h.py", "BlockMessageStruct.after", ["C13", "C08"],
        must=["post:"], calls=["Proto.get_option_as_int_or_raise", "Block.push / push_string"])
def _struct_after(E, A):
    """the value of option c.struct_packing_alignment (whatever expression it was evaluated from) is the one used: for every value
    0..8 the struct is closed with `}` followed by __attribute__((packed, aligned(<that value>))) exactly when the value is not 0,
    and by `;`"""
    from bitproto.renderer.impls.c import renderer_h as RH
    asked = []
    for v in range(0, 9):
        out = []

        class Bound:
            def get_option_as_int_or_raise(self, name, v=v):
                asked.append(name)
                return v

        class Blk(RH.BlockMessageStruct):           # the real method on an object whose surroundings (context, buffer) are stubs
            bound = Bound()
        blk = Blk.__new__(Blk)
        blk.push = lambda s, **kw: out.append(("line", s))
        blk.push_string = lambda s, **kw: out.append(("str", s, kw.get("separator")))
        try:
            RH.BlockMessageStruct.after(blk)
        except AttributeError as e:
            raise EN.Unsupported("BlockMessageStruct.after needs more of the block than the stub provides: %r" % (e,))
        text = "".join(x[1] for x in out)
        want = "}" + ("__attribute__((packed, aligned(%d)))" % v if v > 0 else "") + ";"
        E.oblige("post:alignment=%d%s" % (v, "" if text == want else " (emitted %r)" % text), z3.BoolVal(text == want))
    E.oblige("post:option-name", z3.BoolVal(bool(asked) and all(a == "c.struct_packing_alignment" for a in asked)))
