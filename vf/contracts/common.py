"""Helpers shared by the side-car contract files for Python sources."""
from __future__ import annotations

import traceback
from typing import Callable, Dict, List, Optional, Tuple

import z3

from ..core.registry import ProofDef, ProofResult, register
from ..pysym import engine as EN
from ..pysym import loader
from ..pysym.loops import LoopVC, LoopSpec
from ..pysym.proxies import (SymInt, SymBool, SymBytes, CBytes, wrap, lift, lift_bool, sym_int, sym_min, sym_max,
                             sym_len, sym_bool, sym_abs, sym_isinstance)

SHADOWS = dict(int=sym_int, min=sym_min, max=sym_max, len=sym_len, bool=sym_bool, abs=sym_abs,
               isinstance=sym_isinstance)


def pyproof(pid: str, file: str, func: str, props: List[str], modname: str = "m", scope: str = "generic",
            cuts: Optional[Dict[Tuple[str, int], str]] = None, must: Optional[List[str]] = None,
            calls: Optional[List[str]] = None, assumes: Optional[List[str]] = None, package: Optional[str] = None,
            shadows: Optional[dict] = None, max_paths: int = 4000, doc: str = ""):
    """Decorator: body(E, mod, vc) is run once per path on a module freshly exec'd from the working tree."""

    def deco(body: Callable):
        def run(concrete=None) -> ProofResult:
            res = ProofResult(pid=pid, obls=[])
            try:
                src = loader.read_src(file)
                seg, line = loader.func_source(src, func)
                res.sha = loader.func_sha(src, func)
                res.line = line
                vc = LoopVC({})
                mod, info = loader.load(file, modname, shadows=SHADOWS if shadows is None else shadows,
                                        cuts=cuts, vc=vc, package=package)
                res.cut_loops = info
                E = EN.Engine(pid, func, "%s:%d" % (file, line), props, scope=scope,
                              srcfile=loader.os.path.join(loader.REPO, file), max_paths=max_paths)
                E.concrete = concrete
                E.explore(lambda: body(E, mod, vc))
                res.obls = E.obls
                res.paths = E.completed_paths
                res.notes = E.notes
                missing = [m for m in (must or []) if not any(l == m or l.startswith(m) for l in E.labels_seen)]
                if missing:
                    res.error = "labels never generated (vacuous proof?): %r" % missing
                if not E.obls:
                    res.error = "no obligations generated"
            except KeyError as e:
                res.error = "target not found: %r" % (e,)
            except EN.Unsupported as e:
                res.error = "unsupported construct: %s" % (e,)
                try:
                    res.obls = E.obls       # keep what was generated before the engine gave up (refutations still count)
                except NameError:
                    pass
            except Exception as e:  # engine exception: checker error, never a verdict
                res.error = "engine exception: %r\n%s" % (e, traceback.format_exc(limit=8))
            return res

        register(ProofDef(pid=pid, func=func, file=file, props=props, run=run, scope=scope,
                          must_labels=must or [], doc=doc or (body.__doc__ or ""), calls=calls or [],
                          assumes=assumes or []))
        return body

    return deco


def S(E, name, sort="bv"):
    """fresh symbolic integer proxy"""
    return SymInt(E.fresh(name, sort))


def T(x, like=None):
    return lift(x, like)
