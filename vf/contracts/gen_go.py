"""Go: (a) generic proofs of the pure helpers of lib/go/bitproto.go against the SAME spec formulas as their Python twins
(C19: equal results on the whole domain); (b) per-program proofs of generated Go + the real Go runtime (standard mode: C19
structure, C05, C14; optimization mode: C04) over the template family."""
from __future__ import annotations

import os
import traceback

import z3

from ..core.registry import ProofDef, ProofResult, register
from ..gosym import gengo, interp as GI
from ..gosym.interp import Program, Interp, GI as GInt
from ..pysym import engine as EN
from ..pysym import genpy, loader
from ..spec import layout as L
from ..templates import build, family
from .gen_c import traditional

RUNTIME = "lib/go/bitproto.go"
RENDER = "compiler/bitproto/renderer/impls/go/renderer.py"


def _runtime():
    prog = Program()
    with open(os.path.join(loader.REPO, RUNTIME)) as f:
        src = f.read()
    pkg = prog.add(src, gengo.RUNTIME_PATH)
    return prog, pkg, src


def goproof(pid, func, props, doc=""):
    def deco(body):
        def run(concrete=None) -> ProofResult:
            res = ProofResult(pid=pid, obls=[])
            try:
                prog, pkg, src = _runtime()
                if func not in pkg.funcs:
                    res.error = "target not found: func %s" % func
                    return res
                import hashlib
                res.sha = hashlib.sha256(repr(pkg.funcs[func]).encode()).hexdigest()[:16]
                E = EN.Engine(pid, func, RUNTIME, props)
                E.concrete = concrete
                it = Interp(prog, oblige=lambda kind, label, goal: E.oblige("%s:%s" % (kind, label),
                                                                            z3.BoolVal(goal) if isinstance(goal, bool) else goal, kind=kind))
                E.explore(lambda: body(E, it, pkg))
                res.obls, res.paths = E.obls, E.completed_paths
                if not E.obls:
                    res.error = "no obligations generated"
            except GI.GoUnsupported as e:
                res.error = "unsupported Go construct: %s" % (e,)
            except SyntaxError as e:
                res.error = "Go construct outside the parsed subset: %s" % (e,)
            except Exception as e:
                res.error = "engine exception: %r\n%s" % (e, traceback.format_exc(limit=-6))
            return res
        register(ProofDef(pid=pid, func=func, file=RUNTIME, props=props, run=run, doc=doc or (body.__doc__ or "")))
        return body
    return deco


def _int(E, name):
    return z3.BitVec(name if E.concrete is None else name, 64)


def I64(E, name):
    t = E.fresh(name, z3.BitVecSort(64))
    return GInt("int", 64, True, t), t


@goproof("go:getMask", "getMask", ["C19"])
def _getmask(E, it, pkg):
    """0<=k<=7, 0<=c, k+c<=8  ==>  getMask(k,c) = 2^(k+c) - 2^k   (the formula bp.get_mask is proved against)"""
    k, kt = I64(E, "k")
    c, ct = I64(E, "c")
    E.assume(z3.And(kt >= 0, kt <= 7, ct >= 0, ct <= 8, kt + ct <= 8))
    E.cover("requires")
    r = it.call_func(pkg, pkg.funcs["getMask"], [k, c])[0]
    one = z3.BitVecVal(1, 64)
    E.oblige("post:result", r.term() == (one << (kt + ct)) - (one << kt))


@goproof("go:getNbitsToCopy", "getNbitsToCopy", ["C19"])
def _getnbits(E, it, pkg):
    """i>=0, 0<=j<n<=64  ==>  min(n-j, 8-j%8, 8-i%8)  (= bp.get_nbits_to_copy), hence >= 1"""
    i, i_ = I64(E, "i")
    j, j_ = I64(E, "j")
    n, n_ = I64(E, "n")
    E.assume(z3.And(i_ >= 0, i_ < (1 << 53), j_ >= 0, j_ < n_, n_ <= 64))
    E.cover("requires")
    r = it.call_func(pkg, pkg.funcs["getNbitsToCopy"], [i, j, n])[0].term()
    a, b, c = n_ - j_, 8 - z3.URem(j_, 8), 8 - z3.URem(i_, 8)
    m = z3.If(a < b, a, b)
    m = z3.If(m < c, m, c)
    E.oblige("post:result", r == m)
    E.oblige("post:positive", r >= 1)


@goproof("go:min", "min", ["C19"])
def _min(E, it, pkg):
    a, a_ = I64(E, "a")
    b, b_ = I64(E, "b")
    r = it.call_func(pkg, pkg.funcs["min"], [a, b])[0].term()
    E.oblige("post:result", r == z3.If(a_ < b_, a_, b_))


@goproof("go:smartShift", "smartShift", ["C19"])
def _smartshift(E, it, pkg):
    """-7<=k<=7: smartShift(n,k) is a byte, i.e. the Python smart_shift(n,k) modulo 2^8 - and after the `& mask` that always
    follows (mask < 256) the two are equal without qualification"""
    nt = E.fresh("n", z3.BitVecSort(8))
    k, kt = I64(E, "k")
    E.assume(z3.And(kt >= -7, kt <= 7))
    E.cover("requires")
    r = it.call_func(pkg, pkg.funcs["smartShift"], [GInt("uint8", 8, False, nt), k])[0]
    n64 = z3.ZeroExt(56, nt)
    py = z3.If(kt > 0, z3.LShR(n64, kt), z3.If(kt < 0, n64 << (0 - kt), n64))     # bp.smart_shift on 0 <= n <= 255
    E.oblige("post:result-mod-256", r.term() == z3.Extract(7, 0, py))
    mask = E.fresh("mask", z3.BitVecSort(64))
    E.oblige("post:equal-under-byte-mask", z3.Implies(z3.And(mask >= 0, mask <= 255),
                                                      z3.ZeroExt(56, r.term()) & mask == py & mask))


@goproof("go:Bool2byte", "Bool2byte", ["C19"])
def _b2b(E, it, pkg):
    b = E.fresh("b", "bool")
    r = it.call_func(pkg, pkg.funcs["Bool2byte"], [b])[0]
    E.oblige("post:Bool2byte", r.term() == z3.If(b, z3.BitVecVal(1, 8), z3.BitVecVal(0, 8)))
    x = E.fresh("x", z3.BitVecSort(8))
    r2 = GI.unb(it.call_func(pkg, pkg.funcs["Byte2bool"], [GInt("uint8", 8, False, x)])[0])
    E.oblige("post:Byte2bool", (z3.BoolVal(r2) if isinstance(r2, bool) else r2) == (x != 0))


@goproof("go:accessors", "NewDataIndexer", ["C19", "C05"])
def _acc(E, it, pkg):
    """Uint8Accessor / Uint16Accessor (the 16-bit prefix carriers): for field number 1, BpGetByte = byte(data >> r),
    BpSetByte ORs b << l into data; DataIndexer's index stack"""
    for tn, bits in (("Uint8Accessor", 8), ("Uint16Accessor", 16)):
        d = E.fresh("data%d" % bits, z3.BitVecSort(bits))
        b = E.fresh("b%d" % bits, z3.BitVecSort(8))
        acc = it.zero(pkg, ("name", tn))
        acc.f["data"] = GInt("uint%d" % bits, bits, False, d)
        di = it.call_func(pkg, pkg.funcs["NewDataIndexer"], [1])[0]
        for r in range(0, bits, 8):
            got = it.invoke(("method", GI.GPtr(acc), "BpGetByte"), [di, GInt("int", 64, True, r)])[0]
            E.oblige("post:%s.BpGetByte[%d]" % (tn, r), got.term() == z3.Extract(7, 0, z3.LShR(d, r)))
        for l in range(0, bits, 8):
            acc2 = it.zero(pkg, ("name", tn))
            acc2.f["data"] = GInt("uint%d" % bits, bits, False, d)
            it.invoke(("method", GI.GPtr(acc2), "BpSetByte"), [di, GInt("int", 64, True, l), GInt("uint8", 8, False, b)])
            E.oblige("post:%s.BpSetByte[%d]" % (tn, l), acc2.f["data"].term() == (d | (z3.ZeroExt(bits - 8, b) << l)))
    # two levels: I(0) is the OUTERMOST array index, I(1) the next (generated accessors index x[di.I(0)][di.I(1)])
    d2 = it.call_func(pkg, pkg.funcs["NewDataIndexer"], [7])[0]
    a_, b_ = E.fresh("outer", z3.BitVecSort(64)), E.fresh("inner", z3.BitVecSort(64))
    it.invoke(("method", d2, "IndexStackUp"), [])
    it.invoke(("method", d2, "IndexReplace"), [GInt("int", 64, True, a_)])
    it.invoke(("method", d2, "IndexStackUp"), [])
    it.invoke(("method", d2, "IndexReplace"), [GInt("int", 64, True, b_)])
    g0 = it.invoke(("method", d2, "I"), [GInt("int", 64, True, 0)])[0]
    g1 = it.invoke(("method", d2, "I"), [GInt("int", 64, True, 1)])[0]
    E.oblige("post:DataIndexer.I(level)", z3.And(g0.term() == a_, g1.term() == b_))
    di = it.call_func(pkg, pkg.funcs["NewDataIndexer"], [7])[0]
    it.invoke(("method", di, "IndexStackUp"), [])
    it.invoke(("method", di, "IndexReplace"), [GInt("int", 64, True, 4)])
    got = it.invoke(("method", di, "I"), [GInt("int", 64, True, 0)])[0]
    f = it.invoke(("method", di, "F"), [])[0]
    it.invoke(("method", di, "IndexStackDown"), [])
    E.oblige("post:DataIndexer", z3.BoolVal(got.v == 4 and f.v == 7 and len(di.t.f["aistack"]) == 0))


# ----------------------------------------------------------------------------- per program
def _mk_unit(u: family.Unit, optimize: bool):
    variant = "opt" if optimize else "std"
    # C04 (Go): -O output and standard-mode output agree because BOTH are proved against the same layout - the standard-mode runs count
    props = ["C04"] if optimize else ([p for p in ["C19", "C14", "C07"] if p in (getattr(u, "props_go", None) or ["C19", "C14", "C07"])]
                                      + (["C04"] if "traditional" in u.tags or u.name.startswith("leaf:") else []))
    pid = "gen-go:%s:%s" % (variant, u.name)

    def run(concrete=None, only=None) -> ProofResult:
        res = ProofResult(pid=pid, obls=[])
        try:
            schema, msgs = traditional(u) if optimize else (u.schema, u.messages)
            if not msgs:
                res.error = "no messages"
                return res
            prog, pkg, outs = gengo.build_program(schema, optimize)
            E = EN.Engine(pid, "generated Go (%s) of %s + lib/go/bitproto.go" % (variant, schema.fname()), RENDER if optimize else RUNTIME,
                          list(props), scope="program")
            E.concrete = concrete
            pymods = None
            if not optimize:
                pouts = build.compile_schema(schema, "py")
                order = [p.fname().replace(".bitproto", "_bp.py") for p in build._all_protos(schema)]
                pymods = genpy.load_native(pouts, order)
            E.explore(lambda: gengo.run_helpers(E, prog))
            for msg in msgs:
                mname = "".join(L._path(msg))
                if only and not only.startswith("%s/%s/" % (pid, mname)):
                    continue

                def body(msg=msg, mname=mname):
                    E.proof_id = "%s/%s" % (pid, mname)
                    E.cur_props = None
                    gengo.run_encode(E, prog, pkg, msg)
                    gengo.run_decode(E, prog, pkg, msg)
                    if not optimize:
                        E.cur_props = ["C19"]
                        cls = genpy.py_class(pymods[schema.fname().replace(".bitproto", "_bp")], msg)
                        gengo.run_structure(E, prog, pkg, msg, py_cls=cls)
                    E.cur_props = None
                E.explore(body)
            E.proof_id = pid
            res.obls, res.paths = E.obls, E.completed_paths
            if not E.obls:
                res.error = "no obligations generated"
        except GI.GoUnsupported as e:
            res.error = "unsupported Go construct: %s" % (e,)
        except SyntaxError as e:
            res.error = "Go construct outside the parsed subset: %s" % (e,)
        except Exception as e:
            res.error = "engine exception: %r\n%s" % (e, traceback.format_exc(limit=-8))
        return res

    p = ProofDef(pid=pid, func="generated Go %s + runtime" % variant, file=RENDER if optimize else RUNTIME, props=list(props),
                 run=run, scope="program", doc="Encode == reference bytes; Decode(reference bytes) == value; structure == model == Python")
    p.tier = u.tier
    register(p)


_quick = set(family.kind_tags("quick"))
for _t in family.kind_tags("thorough"):
    _u = family.leaf_unit(_t)
    _u.tier = "quick" if _t in _quick else "thorough"
    _mk_unit(_u, False)
    _mk_unit(_u, True)
for _u in family.composite_units():
    if _u.name == "composite:enum-default-nonzero":
        continue
    _u.props_go = ["C19", "C07"]
    _mk_unit(_u, False)
    if "traditional" in _u.tags:
        _mk_unit(_u, True)


def _mk_pair(name, s1, m1, s2, m2, project):
    pid = "gen-go:evolve:" + name

    def run(concrete=None, only=None) -> ProofResult:
        res = ProofResult(pid=pid, obls=[])
        try:
            prog, pkg, outs = gengo.build_program(s1, False)
            E = EN.Engine(pid, "generated Go of %s (older schema) + runtime, decoding the extended schema's bytes" % s1.fname(),
                          RUNTIME, ["C05"], scope="program")
            E.concrete = concrete
            E.explore(lambda: gengo.run_decode(E, prog, pkg, m1, label="decode-extended", sender=m2, project=project))
            res.obls, res.paths = E.obls, E.completed_paths
        except GI.GoUnsupported as e:
            res.error = "unsupported Go construct: %s" % (e,)
        except Exception as e:
            res.error = "engine exception: %r\n%s" % (e, traceback.format_exc(limit=-8))
        return res
    p = ProofDef(pid=pid, func="generated Go (older schema) + runtime", file=RUNTIME, props=["C05"], run=run, scope="program")
    p.tier = "quick"
    register(p)


for _pair in family.evolution_pairs():
    _mk_pair(*_pair)


# ----------------------------------------------------------------------------- generic contracts of the Go runtime walkers
from ..gosym.interp import GStub, GoLoopCut, GStruct, GPtr, GSlice


def gomethod(pid, tname, mname, props, doc=""):
    """like goproof, for a method (type, name) of lib/go/bitproto.go"""
    def deco(body):
        def run(concrete=None) -> ProofResult:
            res = ProofResult(pid=pid, obls=[])
            try:
                prog, pkg, src = _runtime()
                if (tname, mname) not in pkg.methods:
                    res.error = "target not found: func (%s) %s" % (tname, mname)
                    return res
                import hashlib
                res.sha = hashlib.sha256(repr(pkg.methods[(tname, mname)][0]).encode()).hexdigest()[:16]
                E = EN.Engine(pid, "%s.%s" % (tname, mname), RUNTIME, props)
                E.concrete = concrete
                it = Interp(prog, oblige=lambda kind, label, goal: E.oblige("%s:%s" % (kind, label),
                                                                            z3.BoolVal(goal) if isinstance(goal, bool) else goal, kind=kind))
                E.explore(lambda: body(E, it, pkg))
                res.obls, res.paths = E.obls, E.completed_paths
                if not E.obls:
                    res.error = "no obligations generated"
            except GI.GoUnsupported as e:
                res.error = "unsupported Go construct: %s" % (e,)
            except SyntaxError as e:
                res.error = "Go construct outside the parsed subset: %s" % (e,)
            except Exception as e:
                res.error = "engine exception: %r\n%s" % (e, traceback.format_exc(limit=-6))
            return res
        register(ProofDef(pid=pid, func="%s.%s" % (tname, mname), file=RUNTIME, props=props, run=run, doc=doc or (body.__doc__ or ""),
                          calls=["processBaseType / element Processor / Accessor (abstract, by contract)"]))
        return body
    return deco


B64 = z3.BitVecSort(64)


def _ctx(E, it, pkg, enc):
    ctx = it.zero(pkg, ("name", "ProcessContext"))
    i0 = E.fresh("i", B64)
    E.assume(z3.And(i0 >= 0, i0 < (1 << 32)))
    ctx.f["isEncode"] = enc
    ctx.f["i"] = GInt("int", 64, True, i0)
    return ctx, i0


def _ci(ctx):
    return ctx.f["i"].term()


def _adv(ctx, d):
    ctx.f["i"] = GInt("int", 64, True, _ci(ctx) + d)


def _go_array(enc, ext):
    mode = ("encode" if enc else "decode") + ("/extensible" if ext else "/fixed")

    @gomethod("go:Array.Process/" + mode, "Array", "Process", ["C19", "C05", "C14"])
    def _p(E, it, pkg):
        """elements k = 0 .. cap-1 in ascending order through the element processor with the SAME ctx, di (top of the index stack = k)
        and accessor; the 16-bit prefix first when extensible; the index stack is back to its depth afterwards; cursor =
        i0 + 16*ext + cap*w, and when decoding an extensible array i0 + 16 + max(ahead, cap)*w (never backwards)"""
        cap = E.fresh("cap", B64)
        w = E.fresh("w", B64)
        ahead = E.fresh("ahead", z3.BitVecSort(16))
        E.assume(z3.And(cap >= 1, cap <= 65535, w >= 0, w <= (1 << 20)))
        mw = z3.Function("mul_w", B64, B64)                       # ghost: mw(k) = k * w, by its step equations
        MUL = z3.Function("MUL", B64, B64, B64)
        DIV = z3.Function("DIV", B64, B64, B64)
        a64 = z3.ZeroExt(48, ahead)
        aw = MUL(a64, w)
        bound = 65535 * (1 << 20)
        E.assume(z3.And(mw(z3.BitVecVal(0, 64)) == 0, mw(cap) >= 0, mw(cap) <= bound))
        if ext and not enc:
            it.abs_muldiv = {"mul": MUL, "div": DIV}
            ci, wi, ai = z3.Int("c"), z3.Int("w"), z3.Int("a")
            E.oblige("lemma:L1-exact-division", z3.Implies(z3.And(ci >= 1, wi >= 0), (ci * wi) / ci == wi), kind="lemma")
            E.oblige("lemma:L2-product-bounded", z3.Implies(z3.And(ai >= 0, ai <= 65535, wi >= 0, wi <= (1 << 20), ci >= 1, ci <= 65535),
                                                            z3.And(ai * wi >= 0, ai * wi <= bound, ci * wi <= bound)), kind="lemma")
            E.oblige("lemma:L3-max-distributes", z3.Implies(z3.And(ci >= 1, ai >= 0, wi >= 0),
                                                            z3.If(ai * wi >= ci * wi, ai * wi, ci * wi) == z3.If(ai >= ci, ai, ci) * wi),
                     kind="lemma")
            E.assume(z3.And(DIV(mw(cap), cap) == w, aw >= 0, aw <= bound, MUL(a64, w) == MUL(w, a64),
                            z3.If(aw >= mw(cap), aw, mw(cap)) == z3.If(a64 >= cap, aw, mw(cap))))
        ctx, i0 = _ctx(E, it, pkg, enc)
        pre = 16 if ext else 0
        acc = GStub("Accessor", {})
        di = it.call_func(pkg, pkg.funcs["NewDataIndexer"], [7])[0]
        depth0 = len(di.t.f["aistack"])
        calls, prefix = [], []

        def elem(I, a):
            c, d, ac = a
            top = d.t.f["aistack"]
            top = top.items[top.lo + len(top) - 1] if isinstance(top, GSlice) else top[-1]
            calls.append((c, d, ac, _ci(ctx), top, len(d.t.f["aistack"])))
            _adv(ctx, w)
            return []
        t = it.zero(pkg, ("name", "Array"))
        t.f["extensible"] = ext
        t.f["capacity"] = GInt("int", 64, True, cap)
        t.f["elementProcessor"] = GStub("Processor", {"Process": elem})
        it.method_contracts[("Array", "EncodeExtensibleAhead")] = lambda I, r, a: (prefix.append(("enc", _ci(ctx), r, a)), _adv(ctx, 16), [])[2]
        it.method_contracts[("Array", "DecodeExtensibleAhead")] = lambda I, r, a: (prefix.append(("dec", _ci(ctx), r, a)), _adv(ctx, 16),
                                                                                    [GInt("uint16", 16, False, ahead)])[2]
        kterm = lambda e: e["k"][0].term()

        def inv(e):
            k = kterm(e)
            E.assume(z3.And(mw(k + 1) == mw(k) + w, mw(k) >= 0, mw(k) <= bound))      # step equation of the ghost at the current k
            return [("range", z3.And(k >= 0, k <= cap)), ("cursor", _ci(ctx) == i0 + pre + mw(k)),
                    ("index-stack-depth", z3.BoolVal(len(di.t.f["aistack"]) == depth0 + 1))]
        back = {}
        cut = GoLoopCut(inv=inv, variant=lambda e: cap - kterm(e), havoc=["k"],
                        pre_assume=lambda e: (ctx.f.__setitem__("i", GInt("int", 64, True, E.fresh("ctx_i", B64))), calls.clear()),
                        at_back_edge=lambda e: back.update(k=kterm(e)))
        it.loop_cuts[("Process", 1)] = cut
        tp = GPtr(t)
        cp = GPtr(ctx)
        try:
            it.invoke(("method", tp, "Process"), [cp, di, acc])
        except EN.StopPath:
            k1 = back.get("k")
            ok = k1 is not None and len(calls) == 1 and calls[0][0] is cp and calls[0][1] is di and calls[0][2] is acc and calls[0][5] == depth0 + 1
            if ok:
                top = calls[0][4]
                top = top.term() if hasattr(top, "term") else z3.BitVecVal(int(top), 64)
                E.oblige("post:element-call", z3.And(calls[0][3] == i0 + pre + mw(k1 - 1), top == k1 - 1))
            else:
                E.oblige("post:element-call", z3.BoolVal(False))
            raise
        if ext:
            okp = len(prefix) == 1 and prefix[0][0] == ("enc" if enc else "dec") and prefix[0][2] is tp and prefix[0][3][0] is cp
            E.oblige("post:prefix-call", z3.And(z3.BoolVal(bool(okp)), prefix[0][1] == i0) if prefix else z3.BoolVal(False))
        else:
            E.oblige("post:prefix-call", z3.BoolVal(not prefix))
        E.oblige("post:index-stack-restored", z3.BoolVal(len(di.t.f["aistack"]) == depth0))
        if enc or not ext:
            E.oblige("post:cursor", _ci(ctx) == i0 + pre + mw(cap))
        else:
            E.oblige("post:cursor", _ci(ctx) == i0 + 16 + z3.If(a64 >= cap, aw, mw(cap)))
            E.oblige("post:cursor-not-backwards", _ci(ctx) >= i0 + 16 + mw(cap))
    return _p


for _enc in (True, False):
    for _ext in (True, False):
        _go_array(_enc, _ext)


def _go_message(enc, ext, nf):
    mode = "%s/%s/%d-fields" % ("encode" if enc else "decode", "extensible" if ext else "fixed", nf)

    @gomethod("go:MessageProcessor.Process/" + mode, "MessageProcessor", "Process", ["C19", "C05"])
    def _p(E, it, pkg):
        """(field count fixed to 0..3 in this proof - the range loop is unrolled, widths / prefix / cursor are symbolic) the fields are
        processed in descriptor order with the same ctx, the CHILD accessor (accessor.BpGetAccessor(di) when di != nil) ; prefix first when
        extensible; cursor = i0 + 16*ext + sum of widths, and when decoding an extensible message i0 + max(ahead, own), never backwards"""
        ctx, i0 = _ctx(E, it, pkg, enc)
        ws = [E.fresh("w%d" % k, B64) for k in range(nf)]
        for x in ws:
            E.assume(z3.And(x >= 0, x <= 65535))
        ahead = E.fresh("ahead", z3.BitVecSort(16))
        child = GStub("Accessor", {})
        got_acc = []
        acc = GStub("Accessor", {"BpGetAccessor": lambda I, a: (got_acc.append(a[0]), [child])[1]})
        calls, prefix = [], []
        fds = []
        for k in range(nf):
            def proc(I, a, k=k):
                calls.append((k, a[0], a[1], a[2], _ci(ctx)))
                _adv(ctx, ws[k])
                return []
            fds.append(GStub("*MessageFieldProcessor", {"Process": proc}))
        t = it.zero(pkg, ("name", "MessageProcessor"))
        t.f["extensible"] = ext
        t.f["nbits"] = GInt("int", 64, True, E.fresh("nbits", B64))
        t.f["fieldDescriptors"] = GSlice(fds)
        it.method_contracts[("MessageProcessor", "EncodeExtensibleAhead")] = lambda I, r, a: (prefix.append(("enc", _ci(ctx))), _adv(ctx, 16), [])[2]
        it.method_contracts[("MessageProcessor", "DecodeExtensibleAhead")] = lambda I, r, a: (prefix.append(("dec", _ci(ctx))), _adv(ctx, 16),
                                                                                               [GInt("uint16", 16, False, ahead)])[2]
        di = it.call_func(pkg, pkg.funcs["NewDataIndexer"], [3])[0]
        cp = GPtr(ctx)
        it.invoke(("method", GPtr(t), "Process"), [cp, di, acc])
        pre = 16 if ext else 0
        own = z3.BitVecVal(pre, 64)
        ok = len(calls) == nf and got_acc == [di]
        for k in range(nf):
            if ok:
                c = calls[k]
                ok = c[0] == k and c[1] is cp and c[3] is child
                E.oblige("post:field-call[%d]" % k, z3.And(z3.BoolVal(bool(ok)), c[4] == i0 + own))
            own = own + ws[k]
        E.oblige("post:fields-in-order", z3.BoolVal(bool(ok)))
        E.oblige("post:prefix-call", z3.And(z3.BoolVal(len(prefix) == 1 and prefix[0][0] == ("enc" if enc else "dec")), prefix[0][1] == i0)
                 if ext and prefix else z3.BoolVal(not ext and not prefix))
        if enc or not ext:
            E.oblige("post:cursor", _ci(ctx) == i0 + own)
        else:
            a64 = z3.ZeroExt(48, ahead)
            E.oblige("post:cursor", _ci(ctx) == i0 + z3.If(a64 >= own, a64, own))
    return _p


for _enc in (True, False):
    for _ext in (True, False):
        for _nf in (0, 1, 2, 3):
            _go_message(_enc, _ext, _nf)


@gomethod("go:MessageFieldProcessor.Process", "MessageFieldProcessor", "Process", ["C19", "C12"])
def _go_field(E, it, pkg):
    """the type processor runs with the same ctx and accessor and a FRESH indexer carrying the field's declared number"""
    ctx, i0 = _ctx(E, it, pkg, True)
    fn = E.fresh("field_number", B64)
    calls = []
    t = it.zero(pkg, ("name", "MessageFieldProcessor"))
    t.f["fieldNumber"] = GInt("int", 64, True, fn)
    t.f["typeProcessor"] = GStub("Processor", {"Process": lambda I, a: (calls.append(a), [])[1]})
    acc = GStub("Accessor", {})
    cp = GPtr(ctx)
    outer = it.call_func(pkg, pkg.funcs["NewDataIndexer"], [99])[0]
    it.invoke(("method", GPtr(t), "Process"), [cp, outer, acc])
    ok = len(calls) == 1 and calls[0][0] is cp and calls[0][2] is acc and calls[0][1] is not outer
    E.oblige("post:one-call(ctx, fresh indexer, accessor)", z3.BoolVal(bool(ok)))
    if ok:
        d = calls[0][1].t
        E.oblige("post:indexer-carries-field-number", z3.And(d.f["fnumber"].term() == fn, z3.BoolVal(len(d.f["aistack"]) == 0)))


def _go_forwarder(tname, field, inner_t=None):
    @gomethod("go:%s.Process" % tname, tname, "Process", ["C19"])
    def _p(E, it, pkg):
        """forwards to the inner processor with the same ctx, di and accessor (cursor and data untouched by the wrapper itself)"""
        ctx, i0 = _ctx(E, it, pkg, True)
        calls = []
        t = it.zero(pkg, ("name", tname))
        if inner_t:
            it.method_contracts[(inner_t, "Process")] = lambda I, r, a: (calls.append([r] + list(a)), [])[1]
            inner = GPtr(it.zero(pkg, ("name", inner_t)))
            t.f[field] = inner
        else:
            inner = GStub("Processor", {"Process": lambda I, a: (calls.append([inner] + list(a)), [])[1]})
            t.f[field] = inner
        acc = GStub("Accessor", {})
        cp = GPtr(ctx)
        di = it.call_func(pkg, pkg.funcs["NewDataIndexer"], [5])[0]
        it.invoke(("method", GPtr(t), "Process"), [cp, di, acc])
        ok = len(calls) == 1 and calls[0][0] is inner and calls[0][1] is cp and calls[0][2] is di and calls[0][3] is acc
        E.oblige("post:forward", z3.And(z3.BoolVal(bool(ok)), _ci(ctx) == i0))
    return _p


_go_forwarder("AliasProcessor", "to")
_go_forwarder("EnumProcessor", "ut", "Uint")


def _go_leaf(tname, nb, signed):
    for enc in (True, False):
        @gomethod("go:%s.Process/%s" % (tname, "encode" if enc else "decode"), tname, "Process", ["C19", "C14"])
        def _p(E, it, pkg, enc=enc):
            """exactly one processBaseType(nbits of the type, ctx, di, accessor); for Int when decoding followed by accessor.BpProcessInt(di)
            (sign extension), never when encoding; nothing else"""
            ctx, i0 = _ctx(E, it, pkg, enc)
            t = it.zero(pkg, ("name", tname))
            if nb is None:
                n = E.fresh("nbits", B64)
                t.f["nbits"] = GInt("int", 64, True, n)
            else:
                n = z3.BitVecVal(nb, 64)
            log = []
            acc = GStub("Accessor", {"BpProcessInt": lambda I, a: (log.append(("sign", a)), [])[1]})
            it.helper_contracts["processbasetype"] = lambda I, a: (log.append(("base", a)), [])[1]
            cp = GPtr(ctx)
            di = it.call_func(pkg, pkg.funcs["NewDataIndexer"], [5])[0]
            it.invoke(("method", GPtr(t), "Process"), [cp, di, acc])
            want = ["base"] + (["sign"] if signed and not enc else [])
            ok = [x[0] for x in log] == want and log[0][1][1] is cp and log[0][1][2] is di and log[0][1][3] is acc \
                and (len(log) == 1 or log[1][1][0] is di)
            a0 = log[0][1][0] if log else None
            a0 = a0.term() if hasattr(a0, "term") else z3.BitVecVal(int(a0 or 0), 64)
            E.oblige("post:calls", z3.And(z3.BoolVal(bool(ok)), a0 == n))


_go_leaf("Bool", 1, False)
_go_leaf("Byte", 8, False)
_go_leaf("Uint", None, False)
_go_leaf("Int", None, True)


from ..gosym.interp import GSymBytes


def _go_single(enc):
    name = "encodeSingleByte" if enc else "decodeSingleByte"

    @goproof("go:" + name, name, ["C19", "C14", "C07"])
    def _p(E, it, pkg):
        """the c bits [j, j+c) of the value (inside ONE byte of it: j%8 + c <= 8) and the c stream bits [i, i+c) (inside ONE buffer
        byte: i%8 + c <= 8) - encode: s[i/8] |= those value bits moved to bit i%8, taken from accessor.BpGetByte(di, 8*(j/8)), nothing
        else of s changes; decode: accessor.BpSetByte(di, 8*(j/8), d) with d = those stream bits moved to bit j%8 and every other bit
        of d zero, s unchanged; any buffer length, any cursor"""
        n = E.fresh("len_s", B64)
        i0 = E.fresh("i", B64)
        j = E.fresh("j", B64)
        c = E.fresh("c", B64)
        E.assume(z3.And(n >= 1, n < (1 << 40), i0 >= 0, z3.UDiv(i0, 8) < n, j >= 0, j < 64, c >= 1, c <= 8,
                        z3.URem(i0, 8) + c <= 8, z3.URem(j, 8) + c <= 8))
        E.cover("requires")
        arr0 = z3.Array("s", B64, z3.BitVecSort(8))
        buf = GSymBytes(arr0, n)
        ctx = it.zero(pkg, ("name", "ProcessContext"))
        ctx.f["isEncode"] = enc
        ctx.f["i"] = GInt("int", 64, True, i0)
        ctx.f["s"] = buf
        b = E.fresh("b", z3.BitVecSort(8))
        log = []
        acc = GStub("Accessor", {"BpGetByte": lambda I, a: (log.append(("get", a)), [GInt("uint8", 8, False, b)])[1],
                                 "BpSetByte": lambda I, a: (log.append(("set", a)), [])[1]})
        di = it.call_func(pkg, pkg.funcs["NewDataIndexer"], [1])[0]
        it.call_func(pkg, pkg.funcs[name], [GPtr(ctx), di, acc, GInt("int", 64, True, j), GInt("int", 64, True, c)])
        ib, ir, jr = z3.UDiv(i0, 8), z3.Extract(7, 0, z3.URem(i0, 8)), z3.Extract(7, 0, z3.URem(j, 8))
        c8 = z3.Extract(7, 0, c)
        ones = z3.LShR(z3.BitVecVal(255, 8), 8 - c8)                      # 2^c - 1
        E.oblige("post:cursor-unchanged", ctx.f["i"].term() == i0)
        if enc:
            ok = len(log) == 1 and log[0][0] == "get" and log[0][1][0] is di
            sh = log[0][1][1].term() if ok else None
            E.oblige("post:reads-value-byte(di, 8*(j/8))", z3.And(z3.BoolVal(bool(ok)), sh == 8 * z3.UDiv(j, 8)) if ok else z3.BoolVal(False))
            want = z3.Select(arr0, ib) | ((z3.LShR(b, jr) & ones) << ir)
            E.oblige("post:buffer-byte", z3.Select(buf.arr, ib) == want)
            m = E.fresh("m", B64)
            E.oblige("post:other-bytes-unchanged", z3.Implies(m != ib, z3.Select(buf.arr, m) == z3.Select(arr0, m)))
        else:
            ok = len(log) == 1 and log[0][0] == "set" and log[0][1][0] is di
            if ok:
                sh, d = log[0][1][1].term(), log[0][1][2].term()
                E.oblige("post:writes-value-byte(di, 8*(j/8), d)", z3.And(sh == 8 * z3.UDiv(j, 8),
                                                                         d == ((z3.LShR(z3.Select(arr0, ib), ir) & ones) << jr)))
            else:
                E.oblige("post:writes-value-byte(di, 8*(j/8), d)", z3.BoolVal(False))
            m = E.fresh("m", B64)
            E.oblige("post:buffer-unchanged", z3.Select(buf.arr, m) == z3.Select(arr0, m))
    return _p


_go_single(True)
_go_single(False)


@goproof("go:processSingleByte", "processSingleByte", ["C19", "C14"])
def _go_psb(E, it, pkg):
    """dispatch on ctx.isEncode to exactly one of encodeSingleByte / decodeSingleByte with the same arguments"""
    for enc in (True, False):
        ctx = it.zero(pkg, ("name", "ProcessContext"))
        ctx.f["isEncode"] = enc
        log = []
        it.helper_contracts["encodesinglebyte"] = lambda I, a: (log.append(("enc", a)), [])[1]
        it.helper_contracts["decodesinglebyte"] = lambda I, a: (log.append(("dec", a)), [])[1]
        acc = GStub("Accessor", {})
        di = it.call_func(pkg, pkg.funcs["NewDataIndexer"], [1])[0]
        cp = GPtr(ctx)
        j, c = GInt("int", 64, True, E.fresh("j", B64)), GInt("int", 64, True, E.fresh("c", B64))
        it.call_func(pkg, pkg.funcs["processSingleByte"], [cp, di, acc, j, c])
        ok = len(log) == 1 and log[0][0] == ("enc" if enc else "dec") and log[0][1][0] is cp and log[0][1][1] is di and log[0][1][2] is acc
        E.oblige("post:dispatch[%s]" % ("encode" if enc else "decode"),
                 z3.And(z3.BoolVal(bool(ok)), log[0][1][3].term() == j.term(), log[0][1][4].term() == c.term()) if ok else z3.BoolVal(False))


@goproof("go:processBaseType", "processBaseType", ["C19", "C14", "C07"])
def _go_pbt(E, it, pkg):
    """loop invariant 0 <= j <= nbits and ctx.i = i0 + j: every iteration hands ONE chunk (j, c) to processSingleByte with the same ctx,
    di and accessor at cursor i0 + j, where c = min(nbits - j, 8 - j%8, 8 - i%8) >= 1 - so the chunk lies inside one value byte and one
    buffer byte (the precondition of encode/decodeSingleByte) and the chunks tile [0, nbits) consecutively; afterwards ctx.i = i0 + nbits
    (processSingleByte is replaced by its contract: it does not move the cursor)"""
    nb = E.fresh("nbits", B64)
    E.assume(z3.And(nb >= 1, nb <= 65535))
    ctx, i0 = _ctx(E, it, pkg, True)
    calls = []
    it.helper_contracts["processsinglebyte"] = lambda I, a: (calls.append((a, _ci(ctx))), [])[1]
    acc = GStub("Accessor", {})
    di = it.call_func(pkg, pkg.funcs["NewDataIndexer"], [1])[0]
    cp = GPtr(ctx)
    jt = lambda e: e["j"][0].term()
    head = {}

    def pre(e):
        ctx.f["i"] = GInt("int", 64, True, E.fresh("ctx_i", B64))
        calls.clear()
        head["j"] = jt(e)
    cut = GoLoopCut(inv=lambda e: [("range", z3.And(jt(e) >= 0, jt(e) <= nb)), ("cursor", _ci(ctx) == i0 + jt(e))],
                    variant=lambda e: nb - jt(e), havoc=["j"], pre_assume=pre)
    it.loop_cuts[("processBaseType", 1)] = cut
    try:
        it.call_func(pkg, pkg.funcs["processBaseType"], [GInt("int", 64, True, nb), cp, di, acc])
    except EN.StopPath:
        j0 = head.get("j")
        ok = j0 is not None and len(calls) == 1 and calls[0][0][0] is cp and calls[0][0][1] is di and calls[0][0][2] is acc
        if ok:
            a, at = calls[0]
            jc, c = a[3].term(), a[4].term()
            i_ = i0 + j0
            m1, m2, m3 = nb - j0, 8 - z3.URem(j0, 8), 8 - z3.URem(i_, 8)
            mn = z3.If(m1 < m2, m1, m2)
            mn = z3.If(mn < m3, mn, m3)
            E.oblige("post:chunk", z3.And(jc == j0, at == i_, c == mn, c >= 1, z3.URem(j0, 8) + c <= 8, z3.URem(i_, 8) + c <= 8, j0 + c <= nb))
        else:
            E.oblige("post:chunk", z3.BoolVal(False))
        raise
    E.oblige("post:cursor", _ci(ctx) == i0 + nb)
