"""Go: (a) generic proofs of the pure helpers of lib/go/bitproto.go against the SAME spec formulas as their Python twins
(C19: equal results on the whole domain); (b) per-program proofs of generated Go + the real Go runtime (standard mode: C19
structure, C05, C14; optimization mode: C04) over the template family."""
from __future__ import annotations

import os
import traceback

import z3

from ..core.registry import ProofDef, ProofResult, register
from ..gosym import gengo, interp as GI
from ..gosym.interp import Program, Interp, GI as GInt
from ..pysym import engine as EN
from ..pysym import genpy, loader
from ..spec import layout as L
from ..templates import build, family
from .gen_c import traditional

RUNTIME = "lib/go/bitproto.go"
RENDER = "compiler/bitproto/renderer/impls/go/renderer.py"


def _runtime():
    prog = Program()
    with open(os.path.join(loader.REPO, RUNTIME)) as f:
        src = f.read()
    pkg = prog.add(src, gengo.RUNTIME_PATH)
    return prog, pkg, src


def goproof(pid, func, props, doc=""):
    def deco(body):
        def run(concrete=None) -> ProofResult:
            res = ProofResult(pid=pid, obls=[])
            try:
                prog, pkg, src = _runtime()
                if func not in pkg.funcs:
                    res.error = "target not found: func %s" % func
                    return res
                import hashlib
                res.sha = hashlib.sha256(repr(pkg.funcs[func]).encode()).hexdigest()[:16]
                E = EN.Engine(pid, func, RUNTIME, props)
                E.concrete = concrete
                it = Interp(prog, oblige=lambda kind, label, goal: E.oblige("%s:%s" % (kind, label),
                                                                            z3.BoolVal(goal) if isinstance(goal, bool) else goal, kind=kind))
                E.explore(lambda: body(E, it, pkg))
                res.obls, res.paths = E.obls, E.completed_paths
                if not E.obls:
                    res.error = "no obligations generated"
            except GI.GoUnsupported as e:
                res.error = "unsupported Go construct: %s" % (e,)
            except SyntaxError as e:
                res.error = "Go construct outside the parsed subset: %s" % (e,)
            except Exception as e:
                res.error = "engine exception: %r\n%s" % (e, traceback.format_exc(limit=-6))
            return res
        register(ProofDef(pid=pid, func=func, file=RUNTIME, props=props, run=run, doc=doc or (body.__doc__ or "")))
        return body
    return deco


def _int(E, name):
    return z3.BitVec(name if E.concrete is None else name, 64)


def I64(E, name):
    t = E.fresh(name, z3.BitVecSort(64))
    return GInt("int", 64, True, t), t


@goproof("go:getMask", "getMask", ["C19"])
def _getmask(E, it, pkg):
    """0<=k<=7, 0<=c, k+c<=8  ==>  getMask(k,c) = 2^(k+c) - 2^k   (the formula bp.get_mask is proved against)"""
    k, kt = I64(E, "k")
    c, ct = I64(E, "c")
    E.assume(z3.And(kt >= 0, kt <= 7, ct >= 0, ct <= 8, kt + ct <= 8))
    E.cover("requires")
    r = it.call_func(pkg, pkg.funcs["getMask"], [k, c])[0]
    one = z3.BitVecVal(1, 64)
    E.oblige("post:result", r.term() == (one << (kt + ct)) - (one << kt))


@goproof("go:getNbitsToCopy", "getNbitsToCopy", ["C19"])
def _getnbits(E, it, pkg):
    """i>=0, 0<=j<n<=64  ==>  min(n-j, 8-j%8, 8-i%8)  (= bp.get_nbits_to_copy), hence >= 1"""
    i, i_ = I64(E, "i")
    j, j_ = I64(E, "j")
    n, n_ = I64(E, "n")
    E.assume(z3.And(i_ >= 0, i_ < (1 << 53), j_ >= 0, j_ < n_, n_ <= 64))
    E.cover("requires")
    r = it.call_func(pkg, pkg.funcs["getNbitsToCopy"], [i, j, n])[0].term()
    a, b, c = n_ - j_, 8 - z3.URem(j_, 8), 8 - z3.URem(i_, 8)
    m = z3.If(a < b, a, b)
    m = z3.If(m < c, m, c)
    E.oblige("post:result", r == m)
    E.oblige("post:positive", r >= 1)


@goproof("go:min", "min", ["C19"])
def _min(E, it, pkg):
    a, a_ = I64(E, "a")
    b, b_ = I64(E, "b")
    r = it.call_func(pkg, pkg.funcs["min"], [a, b])[0].term()
    E.oblige("post:result", r == z3.If(a_ < b_, a_, b_))


@goproof("go:smartShift", "smartShift", ["C19"])
def _smartshift(E, it, pkg):
    """-7<=k<=7: smartShift(n,k) is a byte, i.e. the Python smart_shift(n,k) modulo 2^8 - and after the `& mask` that always
    follows (mask < 256) the two are equal without qualification"""
    nt = E.fresh("n", z3.BitVecSort(8))
    k, kt = I64(E, "k")
    E.assume(z3.And(kt >= -7, kt <= 7))
    E.cover("requires")
    r = it.call_func(pkg, pkg.funcs["smartShift"], [GInt("uint8", 8, False, nt), k])[0]
    n64 = z3.ZeroExt(56, nt)
    py = z3.If(kt > 0, z3.LShR(n64, kt), z3.If(kt < 0, n64 << (0 - kt), n64))     # bp.smart_shift on 0 <= n <= 255
    E.oblige("post:result-mod-256", r.term() == z3.Extract(7, 0, py))
    mask = E.fresh("mask", z3.BitVecSort(64))
    E.oblige("post:equal-under-byte-mask", z3.Implies(z3.And(mask >= 0, mask <= 255),
                                                      z3.ZeroExt(56, r.term()) & mask == py & mask))


@goproof("go:Bool2byte", "Bool2byte", ["C19"])
def _b2b(E, it, pkg):
    b = E.fresh("b", "bool")
    r = it.call_func(pkg, pkg.funcs["Bool2byte"], [b])[0]
    E.oblige("post:Bool2byte", r.term() == z3.If(b, z3.BitVecVal(1, 8), z3.BitVecVal(0, 8)))
    x = E.fresh("x", z3.BitVecSort(8))
    r2 = GI.unb(it.call_func(pkg, pkg.funcs["Byte2bool"], [GInt("uint8", 8, False, x)])[0])
    E.oblige("post:Byte2bool", (z3.BoolVal(r2) if isinstance(r2, bool) else r2) == (x != 0))


@goproof("go:accessors", "NewDataIndexer", ["C19", "C05"])
def _acc(E, it, pkg):
    """Uint8Accessor / Uint16Accessor (the 16-bit prefix carriers): for field number 1, BpGetByte = byte(data >> r),
    BpSetByte ORs b << l into data; DataIndexer's index stack"""
    for tn, bits in (("Uint8Accessor", 8), ("Uint16Accessor", 16)):
        d = E.fresh("data%d" % bits, z3.BitVecSort(bits))
        b = E.fresh("b%d" % bits, z3.BitVecSort(8))
        acc = it.zero(pkg, ("name", tn))
        acc.f["data"] = GInt("uint%d" % bits, bits, False, d)
        di = it.call_func(pkg, pkg.funcs["NewDataIndexer"], [1])[0]
        for r in range(0, bits, 8):
            got = it.invoke(("method", GI.GPtr(acc), "BpGetByte"), [di, GInt("int", 64, True, r)])[0]
            E.oblige("post:%s.BpGetByte[%d]" % (tn, r), got.term() == z3.Extract(7, 0, z3.LShR(d, r)))
        for l in range(0, bits, 8):
            acc2 = it.zero(pkg, ("name", tn))
            acc2.f["data"] = GInt("uint%d" % bits, bits, False, d)
            it.invoke(("method", GI.GPtr(acc2), "BpSetByte"), [di, GInt("int", 64, True, l), GInt("uint8", 8, False, b)])
            E.oblige("post:%s.BpSetByte[%d]" % (tn, l), acc2.f["data"].term() == (d | (z3.ZeroExt(bits - 8, b) << l)))
    di = it.call_func(pkg, pkg.funcs["NewDataIndexer"], [7])[0]
    it.invoke(("method", di, "IndexStackUp"), [])
    it.invoke(("method", di, "IndexReplace"), [GInt("int", 64, True, 4)])
    got = it.invoke(("method", di, "I"), [GInt("int", 64, True, 0)])[0]
    f = it.invoke(("method", di, "F"), [])[0]
    it.invoke(("method", di, "IndexStackDown"), [])
    E.oblige("post:DataIndexer", z3.BoolVal(got.v == 4 and f.v == 7 and len(di.t.f["aistack"]) == 0))


# ----------------------------------------------------------------------------- per program
def _mk_unit(u: family.Unit, optimize: bool):
    variant = "opt" if optimize else "std"
    props = ["C04"] if optimize else [p for p in ["C19", "C14", "C07"] if p in (getattr(u, "props_go", None) or ["C19", "C14", "C07"])]
    pid = "gen-go:%s:%s" % (variant, u.name)

    def run(concrete=None, only=None) -> ProofResult:
        res = ProofResult(pid=pid, obls=[])
        try:
            schema, msgs = traditional(u) if optimize else (u.schema, u.messages)
            if not msgs:
                res.error = "no messages"
                return res
            prog, pkg, outs = gengo.build_program(schema, optimize)
            E = EN.Engine(pid, "generated Go (%s) of %s + lib/go/bitproto.go" % (variant, schema.fname()), RENDER if optimize else RUNTIME,
                          list(props), scope="program")
            E.concrete = concrete
            pymods = None
            if not optimize:
                pouts = build.compile_schema(schema, "py")
                order = [p.fname().replace(".bitproto", "_bp.py") for p in build._all_protos(schema)]
                pymods = genpy.load_native(pouts, order)
            E.explore(lambda: gengo.run_helpers(E, prog))
            for msg in msgs:
                mname = "".join(L._path(msg))
                if only and not only.startswith("%s/%s/" % (pid, mname)):
                    continue

                def body(msg=msg, mname=mname):
                    E.proof_id = "%s/%s" % (pid, mname)
                    E.cur_props = None
                    gengo.run_encode(E, prog, pkg, msg)
                    gengo.run_decode(E, prog, pkg, msg)
                    if not optimize:
                        E.cur_props = ["C19"]
                        cls = genpy.py_class(pymods[schema.fname().replace(".bitproto", "_bp")], msg)
                        gengo.run_structure(E, prog, pkg, msg, py_cls=cls)
                    E.cur_props = None
                E.explore(body)
            E.proof_id = pid
            res.obls, res.paths = E.obls, E.completed_paths
            if not E.obls:
                res.error = "no obligations generated"
        except GI.GoUnsupported as e:
            res.error = "unsupported Go construct: %s" % (e,)
        except SyntaxError as e:
            res.error = "Go construct outside the parsed subset: %s" % (e,)
        except Exception as e:
            res.error = "engine exception: %r\n%s" % (e, traceback.format_exc(limit=-8))
        return res

    p = ProofDef(pid=pid, func="generated Go %s + runtime" % variant, file=RENDER if optimize else RUNTIME, props=list(props),
                 run=run, scope="program", doc="Encode == reference bytes; Decode(reference bytes) == value; structure == model == Python")
    p.tier = u.tier
    register(p)


_quick = set(family.kind_tags("quick"))
for _t in family.kind_tags("thorough"):
    _u = family.leaf_unit(_t)
    _u.tier = "quick" if _t in _quick else "thorough"
    _mk_unit(_u, False)
    _mk_unit(_u, True)
for _u in family.composite_units():
    if _u.name == "composite:enum-default-nonzero":
        continue
    _u.props_go = ["C19", "C07"]
    _mk_unit(_u, False)
    if "traditional" in _u.tags:
        _mk_unit(_u, True)


def _mk_pair(name, s1, m1, s2, m2, project):
    pid = "gen-go:evolve:" + name

    def run(concrete=None, only=None) -> ProofResult:
        res = ProofResult(pid=pid, obls=[])
        try:
            prog, pkg, outs = gengo.build_program(s1, False)
            E = EN.Engine(pid, "generated Go of %s (older schema) + runtime, decoding the extended schema's bytes" % s1.fname(),
                          RUNTIME, ["C05"], scope="program")
            E.concrete = concrete
            E.explore(lambda: gengo.run_decode(E, prog, pkg, m1, label="decode-extended", sender=m2, project=project))
            res.obls, res.paths = E.obls, E.completed_paths
        except GI.GoUnsupported as e:
            res.error = "unsupported Go construct: %s" % (e,)
        except Exception as e:
            res.error = "engine exception: %r\n%s" % (e, traceback.format_exc(limit=-8))
        return res
    p = ProofDef(pid=pid, func="generated Go (older schema) + runtime", file=RUNTIME, props=["C05"], run=run, scope="program")
    p.tier = "quick"
    register(p)


for _pair in family.evolution_pairs():
    _mk_pair(*_pair)
