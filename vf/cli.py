"""vcheck: entry point of every registered check.

    vcheck <PROP> [--tier quick|thorough] [--replay FILE] [--list]

exit 0  every obligation discharged (known findings reported as KNOWN-FINDING lines)
exit 1  at least one obligation refuted by the solver  -> VIOLATION property=<id> replay=<path> [no-failing-input-found]
exit 2  undecided (solver unknown / timeout)           -> UNDECIDED lines
exit 3  checker error (target not found, unsupported construct, engine exception, vacuous proof)
"""
from __future__ import annotations

import argparse
import hashlib
import json
import os
import sys
import time
from collections import Counter

ROOT = os.path.dirname(os.path.dirname(os.path.abspath(__file__)))


def main(argv=None) -> int:
    ap = argparse.ArgumentParser()
    ap.add_argument("prop")
    ap.add_argument("--tier", default=os.environ.get("VERIF_TIER", "quick"), choices=["quick", "thorough"])
    ap.add_argument("--replay")
    ap.add_argument("--list", action="store_true")
    ap.add_argument("--only", help="substring filter on proof ids (debugging; evidence is not written)")
    ap.add_argument("-v", "--verbose", action="store_true")
    a = ap.parse_args(argv)
    seed = int(os.environ.get("VERIF_SEED", "0") or 0)

    from .checks import table
    from .core import runner, registry, report

    t0 = time.time()
    chk = table.get(a.prop)
    if chk is None:
        print("CHECKER-ERROR property %s is not claimed (see MANIFEST not_applicable)" % a.prop)
        return 3
    chk.load()
    if a.replay:
        return report.replay(chk, a.replay)
    pids = chk.select(a.tier, seed)
    if a.only:
        pids = [p for p in pids if a.only in p]
    if a.list:
        for p in pids:
            print(p)
        return 0
    results, obls = runner.run(pids, verbose=a.verbose, prop=a.prop)
    extra = chk.extras(a.tier, seed) if hasattr(chk, "extras") else {}
    return report.finish(chk, a.tier, seed, results, obls, time.time() - t0, write=not a.only, extra=extra)


def _main_with_scratch() -> int:
    """every scratch directory of the run (pool workers included - they leave through os._exit, so their atexit hooks never run)
    lives under ONE parent that this process removes when it ends"""
    import shutil
    import tempfile
    parent = tempfile.mkdtemp(prefix="bpverif-")
    os.environ["VF_SCRATCH_PARENT"] = parent
    try:
        return main()
    finally:
        shutil.rmtree(parent, ignore_errors=True)


if __name__ == "__main__":
    sys.exit(_main_with_scratch())
