#!/usr/bin/env python3
"""Runs the registered checks against every seeded change under seeded/ (each applied to a scratch copy of /repo's HEAD, outside
/repo and /verif, removed afterwards; outputs redirected with VERIF_OUT so the evidence of the real tree is not touched) and
records in seeded/<id>/meta.json which checks report a violation.   usage: tools/seed_matrix.py [seed-id ...]"""
import json, os, shutil, subprocess, sys, tempfile, time

HERE = os.path.dirname(os.path.dirname(os.path.abspath(__file__)))
# checks to run per seed: the property it was written for, plus the others that share its machinery
EXTRA = {"C01": ["C12", "C14"], "C02": ["C01", "C14"], "C03": ["C14", "C07"], "C04": ["C14", "C06"], "C05": ["C02"], "C06": ["C14", "C04"],
         "C07": ["C03", "C04"], "C08": ["C11"], "C09": ["C13"], "C11": ["C08"], "C12": ["C11", "C04"], "C13": ["C09"], "C14": ["C03", "C06"],
         "C16": [], "C17": [], "C19": [], "C20": ["C09"]}


def main():
    man = json.load(open(os.path.join(HERE, "MANIFEST.json")))
    claimed = [c["property_id"] for c in man["checks"]]
    seeds = sys.argv[1:] or sorted(d for d in os.listdir(os.path.join(HERE, "seeded")) if os.path.isdir(os.path.join(HERE, "seeded", d)))
    for sid in seeds:
        sdir = os.path.join(HERE, "seeded", sid)
        prop = sid.split("-")[0]
        work = tempfile.mkdtemp(prefix="bpseed-")
        try:
            repo = os.path.join(work, "repo")
            os.makedirs(repo)
            subprocess.run("git -C /repo archive HEAD | tar -x -C %s" % repo, shell=True, check=True)
            p = subprocess.run(["patch", "-p1", "-s", "-i", os.path.join(sdir, "patch.diff")], cwd=repo, capture_output=True, text=True)
            if p.returncode != 0:
                print(sid, "PATCH FAILED", p.stdout[:200])
                continue
            results = {}
            for chk in [prop] + EXTRA.get(prop, []):
                if chk not in claimed:
                    results[chk] = {"exit": None, "note": "property not claimed"}
                    continue
                env = dict(os.environ, VERIF_REPO=repo, VERIF_OUT=os.path.join(work, "out"))
                t0 = time.time()
                r = subprocess.run([os.path.join(HERE, "bin/vcheck"), chk, "--tier", "quick"], env=env, capture_output=True, text=True)
                lines = [l for l in r.stdout.splitlines() if l.startswith("VIOLATION")]
                fo = [l.strip() for l in r.stdout.splitlines() if l.strip().startswith(("failed obligation", "bounded stand-in"))]
                results[chk] = {"exit": r.returncode, "violation_lines": len(lines), "first": (fo[0][:300] if fo else ""),
                                "wall_s": round(time.time() - t0, 1)}
                print(sid, chk, "exit", r.returncode, (fo[0][:150] if fo else ""), flush=True)
            meta_p = os.path.join(sdir, "meta.json")
            meta = json.load(open(meta_p)) if os.path.exists(meta_p) else {}
            meta["detection"] = {"repo_head": subprocess.run(["git", "-C", "/repo", "rev-parse", "--short", "HEAD"], capture_output=True, text=True).stdout.strip(),
                                 "checks": results, "detected_by": sorted(k for k, v in results.items() if v.get("exit") == 1)}
            json.dump(meta, open(meta_p, "w"), indent=1)
        finally:
            shutil.rmtree(work, ignore_errors=True)


if __name__ == "__main__":
    main()
