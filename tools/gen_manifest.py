#!/usr/bin/env python3
"""Regenerates MANIFEST.json from the table below (run by hand after changing what is claimed)."""
import json, os
HERE = os.path.dirname(os.path.dirname(os.path.abspath(__file__)))
CLAIMED = json.load(open(os.path.join(HERE, "claims.json")))
man = {
    "version": 1,
    "setup_cmd": "sh bin/setup",
    "hooks": {
        "guard": "BITPROTO_VERIF",
        "enable": "none needed: no hook or instrumentation was added to /repo (all contracts are side-cars under /verif/vf/contracts); the guard name is reserved and unused",
        "baseline_off_cmd": "cd /repo && /venv/bin/python -m pytest -ra -q -p no:cacheprovider --timeout=900 --continue-on-collection-errors",
        "source_commits": [],
        "add_only": True,
    },
    "engines": CLAIMED["engines"],
    "checks": [],
    "notes": CLAIMED["notes"],
    "not_applicable": CLAIMED["not_applicable"],
}
for c in CLAIMED["checks"]:
    pid = c["property_id"]
    man["checks"].append({
        "property_id": pid,
        "quick_cmd": "bin/vcheck %s --tier quick" % pid,
        "thorough_cmd": "bin/vcheck %s --tier thorough" % pid,
        "evidence_file": "evidence/%s.json" % pid,
        "replay_cmd_template": "bin/vcheck %s --replay {path}" % pid,
        "engine": c.get("engine", "pysym"),
        "level_claimed": {"category": c.get("category", "proof"), "text": c["text"], "design_ref": c.get("design_ref", "DESIGN.md section 6")},
        "level_note": c["note"],
        "technique": c["technique"],
    })
json.dump(man, open(os.path.join(HERE, "MANIFEST.json"), "w"), indent=1)
print("wrote MANIFEST.json with", len(man["checks"]), "checks")
