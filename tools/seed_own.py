#!/usr/bin/env python3
"""Runs, for every seeded change under seeded/ (or the ids given), the quick check of the property it was written for against a scratch
copy of /repo's HEAD with the patch applied (outside /repo and /verif, removed afterwards; VERIF_OUT redirected) and records the
result under detection.own in seeded/<id>/meta.json.   usage: tools/seed_own.py [-j N] [seed-id ...]"""
import json, os, shutil, subprocess, sys, tempfile, time
from concurrent.futures import ThreadPoolExecutor

FAST = False
HERE = os.path.dirname(os.path.dirname(os.path.abspath(__file__)))


def one(sid):
    sdir = os.path.join(HERE, "seeded", sid)
    prop = sid.split("-")[0]
    work = tempfile.mkdtemp(prefix="bpseed-")
    try:
        repo = os.path.join(work, "repo")
        os.makedirs(repo)
        subprocess.run("git -C /repo archive HEAD | tar -x -C %s" % repo, shell=True, check=True)
        p = subprocess.run(["patch", "-p1", "-s", "-i", os.path.join(sdir, "patch.diff")], cwd=repo, capture_output=True, text=True)
        if p.returncode != 0:
            return sid, {"exit": None, "note": "patch failed"}
        env = dict(os.environ, VERIF_REPO=repo, VERIF_OUT=os.path.join(work, "out"))
        t0 = time.time()
        cmd = [os.path.join(HERE, "bin/vcheck"), prop, "--tier", "quick"]
        only = None
        if FAST:
            # re-run only the proof that reported the seed last time (regression run after a change of the machinery)
            meta0 = json.load(open(os.path.join(sdir, "meta.json"))) if os.path.exists(os.path.join(sdir, "meta.json")) else {}
            det = meta0.get("detection", {})
            first = (det.get("own") or {}).get("first") or ((det.get("checks") or {}).get(prop) or {}).get("first") or ""
            if first.startswith("failed obligation: "):
                only = first[len("failed obligation: "):].split("/")[0].strip()
                cmd += ["--only", only]
            elif first.startswith("bounded stand-in"):
                only = "(stand-ins + py:parser.p_error)"
                cmd += ["--only", "py:parser.p_error"]
        r = subprocess.run(cmd, env=env, capture_output=True, text=True)
        fo = [l.strip() for l in r.stdout.splitlines() if l.strip().startswith(("failed obligation", "bounded stand-in"))]
        res = {"check": prop, "only": only, "exit": r.returncode, "violation_lines": sum(l.startswith("VIOLATION") for l in r.stdout.splitlines()),
               "first": (fo[0][:300] if fo else ""), "wall_s": round(time.time() - t0, 1),
               "repo_head": subprocess.run(["git", "-C", "/repo", "rev-parse", "--short", "HEAD"], capture_output=True, text=True).stdout.strip(),
               "verif_head": subprocess.run(["git", "-C", HERE, "rev-parse", "--short", "HEAD"], capture_output=True, text=True).stdout.strip()}
        meta_p = os.path.join(sdir, "meta.json")
        meta = json.load(open(meta_p)) if os.path.exists(meta_p) else {}
        meta.setdefault("detection", {})["own"] = res
        json.dump(meta, open(meta_p, "w"), indent=1)
        return sid, res
    finally:
        shutil.rmtree(work, ignore_errors=True)


def main():
    global FAST
    args = sys.argv[1:]
    if args[:1] == ["--fast"]:
        FAST = True; args = args[1:]
    j = 3
    if args[:1] == ["-j"]:
        j = int(args[1]); args = args[2:]
    seeds = args or sorted(d for d in os.listdir(os.path.join(HERE, "seeded"))
                           if os.path.isdir(os.path.join(HERE, "seeded", d)) and not d.startswith("benign"))
    with ThreadPoolExecutor(j) as ex:
        for sid, res in ex.map(one, seeds):
            print(sid, res.get("exit"), res.get("wall_s"), (res.get("first") or "")[:140], flush=True)


if __name__ == "__main__":
    main()
