#!/bin/sh
# Runs every registered check (quick tier by default) against /repo and prints one summary line each.
cd "$(dirname "$0")/.." || exit 3
TIER=${1:-quick}
rc=0
for p in $(python3 -c "import json;print(' '.join(c['property_id'] for c in json.load(open('MANIFEST.json'))['checks']))"); do
  bin/vcheck $p --tier $TIER > /tmp/vcheck_$p.log 2>&1; e=$?
  echo "$p exit=$e $(tail -1 /tmp/vcheck_$p.log | cut -c1-200)"
  [ $e -ne 0 ] && rc=1
done
exit $rc
